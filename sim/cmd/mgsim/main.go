//go:build verifsim

// mgsim is the simulator binary: built by every check from an instrumented
// scratch copy of /repo. Subcommands: run (a batch of seeded runs), replay
// (one replay file), probes (fixed known-finding probes), list.
package main

import (
	"encoding/json"
	"flag"
	"fmt"
	"os"
	"sort"
	"time"

	"codeberg.org/TauCeti/mangle-go/zzsim/harness"
	"codeberg.org/TauCeti/mangle-go/zzsim/simrt"
)

func main() {
	if len(os.Args) < 2 {
		fmt.Fprintln(os.Stderr, "usage: mgsim run|replay|probes|list ...")
		os.Exit(2)
	}
	switch os.Args[1] {
	case "list":
		var ids []string
		for id := range harness.Props {
			ids = append(ids, id)
		}
		sort.Strings(ids)
		for _, id := range ids {
			fmt.Println(id)
		}
	case "run":
		fs := flag.NewFlagSet("run", flag.ExitOnError)
		prop := fs.String("prop", "", "property id")
		seed := fs.Uint64("seed", 1, "batch seed")
		start := fs.Int("start", 0, "first run index")
		count := fs.Int("count", 100, "number of runs")
		tier := fs.Int("tier", 0, "0 quick, 1 thorough")
		out := fs.String("out", "", "result file (json)")
		secs := fs.Float64("deadline", 3600, "wall clock budget in seconds")
		replays := fs.String("replays", "/verif/replays", "where replay files go")
		shrink := fs.Int("shrink", 300, "shrink budget (re-executions)")
		fs.Parse(os.Args[2:])
		p := harness.Props[*prop]
		if p == nil {
			fmt.Fprintln(os.Stderr, "unknown property", *prop)
			os.Exit(2)
		}
		res := harness.Batch(p, *seed, *start, *count, harness.Tier(*tier), time.Now().Add(time.Duration(*secs*float64(time.Second))), *replays, *shrink)
		writeJSON(*out, res)
	case "probes":
		fs := flag.NewFlagSet("probes", flag.ExitOnError)
		prop := fs.String("prop", "", "property id")
		out := fs.String("out", "", "result file (json)")
		fs.Parse(os.Args[2:])
		p := harness.Props[*prop]
		if p == nil {
			fmt.Fprintln(os.Stderr, "unknown property", *prop)
			os.Exit(2)
		}
		writeJSON(*out, harness.RunProbes(p))
	case "replay":
		fs := flag.NewFlagSet("replay", flag.ExitOnError)
		file := fs.String("file", "", "replay file")
		verbose := fs.Bool("v", false, "print trace")
		out := fs.String("out", "", "result file (json)")
		fs.Parse(os.Args[2:])
		rf, err := harness.ReadReplay(*file)
		if err != nil {
			fmt.Fprintln(os.Stderr, err)
			os.Exit(2)
		}
		p := harness.Props[rf.Property]
		if p == nil {
			fmt.Fprintln(os.Stderr, "unknown property", rf.Property)
			os.Exit(2)
		}
		if rf.Probe != "" {
			for _, pr := range harness.RunProbes(p) {
				if pr.Key == rf.Probe {
					writeJSON(*out, map[string]any{"class": pr.Class, "msg": pr.Msg, "expected_class": rf.Class, "reproduced": pr.Class == rf.Class, "trace_hash": "", "expected_trace_hash": ""})
					return
				}
			}
			fmt.Fprintln(os.Stderr, "unknown probe", rf.Probe)
			os.Exit(2)
		}
		var o harness.Outcome
		var r *simrt.Run
		if rf.SeedOnly {
			o, r = harness.ExecSeed(p, rf.Seed, harness.Tier(rf.Tier))
		} else {
			o, r = harness.ExecTape(p, rf.Tape, harness.Tier(rf.Tier))
		}
		res := map[string]any{"class": o.Class, "msg": o.Msg, "trace_hash": fmt.Sprintf("%016x", r.Hash()),
			"expected_class": rf.Class, "expected_trace_hash": rf.TraceHash,
			"reproduced": o.Class == rf.Class && fmt.Sprintf("%016x", r.Hash()) == rf.TraceHash}
		if *verbose {
			for _, l := range r.Trace {
				fmt.Println(l)
			}
		}
		writeJSON(*out, res)
	case "one":
		// run one seed and print outcome + trace (debugging aid)
		fs := flag.NewFlagSet("one", flag.ExitOnError)
		prop := fs.String("prop", "", "property id")
		seed := fs.Uint64("seed", 1, "batch seed")
		idx := fs.Int("i", 0, "run index")
		tier := fs.Int("tier", 0, "tier")
		fs.Parse(os.Args[2:])
		p := harness.Props[*prop]
		o, r := harness.ExecSeed(p, harness.RunSeed(*seed, p.ID, *idx), harness.Tier(*tier))
		for _, l := range r.Trace {
			fmt.Println(l)
		}
		b, _ := json.MarshalIndent(o, "", " ")
		fmt.Println(string(b))
		fmt.Printf("hash %016x steps %d mapevents %d tape %d\n", r.Hash(), r.Steps, r.MapEvents, len(r.Tape.Rec))
	default:
		fmt.Fprintln(os.Stderr, "unknown subcommand", os.Args[1])
		os.Exit(2)
	}
}

func writeJSON(path string, v any) {
	b, err := json.Marshal(v)
	if err != nil {
		fmt.Fprintln(os.Stderr, err)
		os.Exit(2)
	}
	if path == "" {
		fmt.Println(string(b))
		return
	}
	if err := os.WriteFile(path, b, 0o644); err != nil {
		fmt.Fprintln(os.Stderr, err)
		os.Exit(2)
	}
}
