//go:build verifsim

package harness

import (
	"errors"
	"io"

	"codeberg.org/TauCeti/mangle-go/zzsim/simrt"
)

// Stub streams over an in-memory medium. Chunk sizes come from a sub-seed on
// the tape plus an event counter (so the tape stays short); faults are
// explicit and counted when they fire.

var ErrInjectedRead = errors.New("injected read error")
var ErrInjectedWrite = errors.New("injected write error")
var ErrInjectedOpen = errors.New("injected open error")

func mixU(a, b uint64) uint64 { return simrt.Mix(a, b) }

// SimReader reads a medium with a simulated delivery schedule.
type SimReader struct {
	r    *simrt.Run
	data []byte
	pos  int
	seed uint64
	n    uint64
	// Mode: 0 = whatever the caller asks (full), 1 = random chunks incl. 1 byte,
	// 2 = one byte at a time, 3 = random chunks with (0,nil) stutters and (n,EOF)
	Mode int
	// FailAt >= 0: return ErrInjectedRead once pos reaches FailAt (after delivering the bytes before it)
	FailAt int
	Fired  bool
	Closed bool
	Reads  int
}

func NewSimReader(r *simrt.Run, data []byte, mode int, seed uint64) *SimReader {
	return &SimReader{r: r, data: data, Mode: mode, seed: seed, FailAt: -1}
}

func (s *SimReader) Read(p []byte) (int, error) {
	s.Reads++
	if len(p) == 0 {
		return 0, nil
	}
	limit := len(s.data)
	if s.FailAt >= 0 && s.FailAt < limit {
		limit = s.FailAt
	}
	if s.pos >= limit {
		if s.FailAt >= 0 && s.pos >= s.FailAt {
			if !s.Fired {
				s.Fired = true
				s.r.Fault("read-error")
			}
			return 0, ErrInjectedRead
		}
		return 0, io.EOF
	}
	s.n++
	h := mixU(s.seed, s.n)
	n := len(p)
	switch s.Mode {
	case 1, 3:
		switch h % 4 {
		case 0:
			n = 1
		case 1:
			n = 1 + int((h>>8)%7)
		case 2:
			n = 1 + int((h>>8)%64)
		}
		if s.Mode == 3 && (h>>20)%9 == 0 {
			return 0, nil // stutter: allowed by io.Reader, discouraged
		}
	case 2:
		n = 1
	}
	if n > len(p) {
		n = len(p)
	}
	if n > limit-s.pos {
		n = limit - s.pos
	}
	copy(p, s.data[s.pos:s.pos+n])
	s.pos += n
	if s.Mode == 3 && s.pos == len(s.data) && s.FailAt < 0 && (h>>30)%2 == 0 {
		return n, io.EOF // data together with EOF
	}
	return n, nil
}

func (s *SimReader) Close() error { s.Closed = true; return nil }

// SimWriter writes onto a medium; FailAt >= 0 makes the write that crosses
// that offset store a prefix and return an error.
type SimWriter struct {
	r      *simrt.Run
	Data   []byte
	FailAt int
	Fired  bool
	// Sticky: once failed, every later write fails too (a broken pipe);
	// otherwise only the crossing write fails (a transient error).
	Sticky bool
	Writes int
}

func NewSimWriter(r *simrt.Run) *SimWriter { return &SimWriter{r: r, FailAt: -1} }

func (w *SimWriter) Write(p []byte) (int, error) {
	w.Writes++
	if w.Fired && w.Sticky {
		return 0, ErrInjectedWrite
	}
	if w.FailAt >= 0 && !w.Fired && len(w.Data)+len(p) > w.FailAt {
		n := w.FailAt - len(w.Data)
		if n < 0 {
			n = 0
		}
		w.Data = append(w.Data, p[:n]...)
		w.Fired = true
		w.r.Fault("write-error")
		return n, ErrInjectedWrite
	}
	w.Data = append(w.Data, p...)
	return len(p), nil
}
