//go:build verifsim

package harness

import (
	"fmt"
	"strings"

	"codeberg.org/TauCeti/mangle-go/analysis"
	"codeberg.org/TauCeti/mangle-go/ast"
	"codeberg.org/TauCeti/mangle-go/engine"
	"codeberg.org/TauCeti/mangle-go/factstore"
	"codeberg.org/TauCeti/mangle-go/parse"
	"codeberg.org/TauCeti/mangle-go/zzsim/simrt"
)

func init() {
	Register(&Prop{ID: "C01", Run: runC01, StepCap: 40_000_000})
	Register(&Prop{ID: "C02", Run: runC02, StepCap: 40_000_000, Probes: []Probe{{
		Key:  "internal-relation-names-collide",
		Desc: "the internal relation of the n-th multi-premise aggregating rule of a stratum is called <head><n>__tmp: the 11th rule for p and the 1st rule for p1 (another stratum) share p11__tmp, and one of the two rules reduces the union of both bodies",
		Run: func(r *simrt.Run) Outcome {
			var sb strings.Builder
			sb.WriteString("a(1). a(2). a(3). b(1). b(2). b(3). c(7). c(8). d(7). d(8).\n")
			for k := 101; k <= 110; k++ {
				fmt.Fprintf(&sb, "p(N) :- a(X), b(X), X = %d |> do fn:group_by(), let N = fn:count().\n", k)
			}
			sb.WriteString("p(N) :- a(X), b(X) |> do fn:group_by(), let N = fn:count().\n")
			sb.WriteString("p1(N) :- c(X), d(X) |> do fn:group_by(), let N = fn:count().\n")
			text := sb.String()
			defer func() { r.OrderPolicy, r.OrderSeed = simrt.OrderAsc, 0 }()
			for pol := 0; pol < simrt.NumOrderPolicies; pol++ {
				for seed := uint64(0); seed < 3; seed++ {
					r.OrderPolicy, r.OrderSeed = pol, seed
					pi, err, st := ParseAnalyze(text, nil)
					if err != nil {
						return Violation("C02/generator", "probe program rejected (%s): %v", st, err)
					}
					store := NewStore(StoreSimple)
					if err := engine.EvalProgram(pi, store); err != nil {
						return Violation("C02/eval-error", "probe program fails: %v", err)
					}
					facts, err := DumpStore(store, nil)
					if err != nil {
						return Violation("C02/generator", "dump: %v", err)
					}
					var got []string
					for k := range facts {
						if strings.HasPrefix(k, "p(") || strings.HasPrefix(k, "p1(") {
							got = append(got, k)
						}
					}
					sortStrings(got)
					if strings.Join(got, " ") != "p(3) p1(2)" {
						return Violation("C02/extra-fact", "eleven aggregating rules for p and one for p1: expected p(3) p1(2), got %v under map order %s/%d (the 11th rule of p and the 1st of p1 share the internal relation p11__tmp)", got, simrt.OrderNames[pol], seed)
					}
				}
			}
			return Outcome{}
		}}}})
	Register(&Prop{ID: "C20", Run: runC20, StepCap: 40_000_000})
}

const refCap = 5000

// refKeys renders the reference model canonically (set columns sorted).
func refKeys(res RefResult, setCols func(string, int) bool) (map[string]bool, map[string]string) {
	out := map[string]bool{}
	var fs []Fact
	for _, f := range res.Facts {
		out[CanonKey(f, setCols)] = true
		fs = append(fs, f)
	}
	return out, FactHashes(fs, setCols)
}

func drawStoreCfg(r *simrt.Run) EvalCfg {
	c := EvalCfg{}
	c.Order = r.Choose(simrt.NumOrderPolicies, "cfg.order")
	c.OrderSeed = uint64(r.Choose(1<<16, "cfg.orderseed"))
	c.Store = r.Choose(NumStoreKinds, "cfg.store")
	c.Determ = r.Bool("cfg.determ")
	c.InlineFacts = !r.Bool("cfg.preload")
	return c
}

func runC01(r *simrt.Run, tier Tier) Outcome {
	o := DrawOpts(r)
	o.Aggregation = false // aggregation is C02's subject
	return runModelCheck(r, "C01", o)
}

func runC02(r *simrt.Run, tier Tier) Outcome {
	if r.OneIn(6, "c02.lookalike-keys") {
		return runC02Keys(r)
	}
	o := DrawOpts(r)
	o.Aggregation, o.AggBias = true, true
	if o.MaxIDB < 2 {
		o.MaxIDB = 2
	}
	return runModelCheck(r, "C02", o)
}

func runModelCheck(r *simrt.Run, id string, o GenOpts) Outcome {
	prog := GenProgram(r, o)
	src := prog.Source(true)
	r.Logf("program:\n%s", src)
	ref := RefEval(prog, refCap)
	if ref.Err != "" {
		return Violation(id+"/generator", "reference evaluator rejects the generated program: %s\n%s", ref.Err, src)
	}
	if ref.Diverged {
		return Outcome{Discard: "reference-model-too-large"}
	}
	setCols := SetColsOf(prog)
	want, wantH := refKeys(ref, setCols)
	cfg := drawStoreCfg(r)
	// half of the runs present the program as generated (facts first, rules in
	// order of definition), the other half renamed and with facts and rules in
	// a drawn textual order: the least model does not depend on either
	v := MakeVariant(r, prog, !r.Bool("model.presentation"), false)
	res := EvalVariant(r, v, cfg, setCols)
	desc := cfg.String() + " presentation: " + v.Desc
	if v.Desc != "identity" {
		src += "\nas presented to the engine:\n" + v.Prog.Source(true)
	}
	switch res.Stage {
	case "panic":
		return Violation(id+"/panic", "%s: panic %s\nprogram:\n%s", desc, res.Panic, src)
	case "parse":
		return Violation(id+"/generator", "generated program does not parse: %v\n%s", res.Err, src)
	case "analysis":
		return Outcome{Discard: "rejected:analysis"}
	case "":
	default:
		return Violation(id+"/eval-error", "%s: evaluation of an accepted, type-correct program failed at %s: %v\nprogram:\n%s", desc, res.Stage, res.Err, src)
	}
	got := resortSets(res.Facts, setCols)
	missing, extra := DiffSets(want, got)
	if len(missing)+len(extra) > 0 {
		if x, y, ok := HashCollision(wantH, res.Hashes); ok {
			// facts with equal hash codes are in play (stores must keep them apart)
			r.Logf("atoms with equal hash codes: %s / %s", x, y)
		}
		cls := id+"/missing-fact"
		if len(missing) == 0 {
			cls = id+"/extra-fact"
		}
		return Violation(cls, "%s\nmissing (in the least model, not in the store): %v\nextra (in the store, not in the least model): %v\nprogram:\n%s", desc, missing, extra, src)
	}
	derived := 0
	for k := range want {
		if strings.HasPrefix(k, "p") || strings.HasPrefix(k, "g") {
			derived++
		}
	}
	if ref.SameRoundJoin {
		r.Probe("same-round-pair-join")
	}
	if ref.Rounds > 6 {
		r.Probe("deep-recursion(>6 rounds)")
	}
	nontrivial := derived >= 1
	if id == "C02" {
		// count aggregating rules and heads with several of them
		aggHeads := map[string]int{}
		aggFacts := 0
		for i, rule := range prog.Rules {
			if rule.Do != nil {
				aggHeads[rule.Head]++
				aggFacts += len(ref.RuleFacts[i])
				if len(rule.Body) > 1 {
					r.Probe("multi-atom-aggregating-rule")
				}
			}
		}
		for _, n := range aggHeads {
			if n >= 2 {
				r.Probe("several-aggregating-rules-per-head")
			}
		}
		nontrivial = aggFacts >= 1
	}
	return Outcome{Nontrivial: nontrivial, Sample: map[string]any{"program": strings.Split(strings.TrimSpace(src), "\n"), "model_size": len(want), "derived": derived, "config": desc}}
}

// ---------------------------------------------------------------------------
// C20: naive vs semi-naive

func runC20(r *simrt.Run, tier Tier) Outcome {
	o := DrawOpts(r)
	o.Aggregation, o.Lets = false, false
	prog := GenProgram(r, o)
	// rules, and the base facts of predicates that also have rules (the naive
	// entry point accepts those only as unit clauses); the facts of purely
	// extensional predicates are preloaded into both stores
	p2 := *prog
	p2.Facts = nil
	var stored []Fact
	for _, f := range prog.Facts {
		if pi := prog.Pred(f.Pred); pi != nil && !pi.EDB {
			p2.Facts = append(p2.Facts, f)
			r.Probe("base-fact-of-derived-predicate")
		} else {
			stored = append(stored, f)
		}
	}
	p2.Order = nil
	p2.Preds = append([]PredInfo{}, prog.Preds...)
	for i := range p2.Preds {
		p2.Preds[i].Declared = false
	}
	src := p2.Source(true)
	full := prog.Source(true)
	r.Logf("program:\n%s", full)
	unit, err := parse.Unit(strings.NewReader(src))
	if err != nil {
		return Violation("C20/generator", "generated program does not parse: %v\n%s", err, src)
	}
	orderA := r.Choose(simrt.NumOrderPolicies, "c20.orderA")
	orderB := orderA
	if r.Bool("c20.difforder") {
		orderB = r.Choose(simrt.NumOrderPolicies, "c20.orderB")
	}
	seedA, seedB := uint64(r.Choose(1<<16, "c20.seedA")), uint64(r.Choose(1<<16, "c20.seedB"))
	mkStore := func() factstore.SimpleInMemoryStore {
		s := factstore.NewSimpleInMemoryStore()
		for _, f := range stored {
			s.Add(ToAtom(f))
		}
		return s
	}
	// naive
	var naiveErr, semiErr error
	var naiveFacts, semiFacts map[string]bool
	var naiveH, semiH map[string]string
	r.OrderPolicy, r.OrderSeed = orderA, seedA
	sa := mkStore()
	panicked, msg := Guard(func() {
		naiveErr = engine.EvalProgramNaive(unit.Clauses, sa)
		if naiveErr == nil {
			naiveFacts, naiveH, naiveErr = DumpStoreH(sa, nil)
		}
	})
	r.OrderPolicy, r.OrderSeed = simrt.OrderAsc, 0
	if panicked {
		return Violation("C20/naive-panic", "the naive evaluator panics: %s\nprogram:\n%s", msg, full)
	}
	// semi-naive, from an equal store
	r.OrderPolicy, r.OrderSeed = orderB, seedB
	sb := mkStore()
	panicked, msg = Guard(func() {
		known := map[ast.PredicateSym]ast.Decl{}
		for _, sym := range sb.ListPredicates() {
			known[sym] = ast.NewSyntheticDeclFromSym(sym)
		}
		var pi *analysis.ProgramInfo
		pi, semiErr = analysis.AnalyzeOneUnit(parse.SourceUnit{Clauses: unit.Clauses}, known)
		if semiErr != nil {
			return
		}
		semiErr = engine.EvalProgram(pi, sb)
		if semiErr == nil {
			semiFacts, semiH, semiErr = DumpStoreH(sb, nil)
		}
	})
	r.OrderPolicy, r.OrderSeed = simrt.OrderAsc, 0
	if panicked {
		return Violation("C20/seminaive-panic", "the semi-naive evaluator panics: %s\nprogram:\n%s", msg, full)
	}
	if naiveErr != nil || semiErr != nil {
		if (naiveErr == nil) != (semiErr == nil) {
			// one accepts, the other does not: outside the statement's domain
			// ("every program that both evaluators accept")
			return Outcome{Discard: "accepted-by-one-only"}
		}
		return Outcome{Discard: "rejected-by-both"}
	}
	setCols := SetColsOf(prog)
	_, _ = naiveH, semiH
	naiveFacts, semiFacts = resortSets(naiveFacts, setCols), resortSets(semiFacts, setCols)
	onlyN, onlyS := DiffSets(naiveFacts, semiFacts)
	if len(onlyN)+len(onlyS) > 0 {
		// tie-breaker: who is wrong?
		hint := ""
		ref := RefEval(prog, refCap)
		if ref.Err == "" && !ref.Diverged {
			want, _ := refKeys(ref, setCols)
			mn, en := DiffSets(want, naiveFacts)
			ms, es := DiffSets(want, semiFacts)
			hint = fmt.Sprintf("\nagainst the reference model: naive missing %v extra %v; semi-naive missing %v extra %v", mn, en, ms, es)
		}
		return Violation("C20/stores-differ", "naive (order %s) and semi-naive (order %s) finish with different stores\nonly naive: %v\nonly semi-naive: %v%s\nprogram:\n%s",
			simrt.OrderNames[orderA], simrt.OrderNames[orderB], onlyN, onlyS, hint, full)
	}
	derived := 0
	for k := range semiFacts {
		if strings.HasPrefix(k, "p") || strings.HasPrefix(k, "g") {
			derived++
		}
	}
	hasNeg := strings.Contains(src, "!")
	if hasNeg && derived > 0 {
		r.Probe("negation-with-derived-facts")
	}
	return Outcome{Nontrivial: derived >= 1, Sample: map[string]any{"program": strings.Split(strings.TrimSpace(full), "\n"), "facts": len(semiFacts), "derived": derived}}
}
