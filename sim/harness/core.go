//go:build verifsim

// Package harness holds the simulated workloads, oracles, the shrinker and
// the batch/replay plumbing of mgsim.
package harness

import (
	"encoding/json"
	"fmt"
	"os"
	"runtime/debug"
	"sort"
	"strings"
	"time"

	"codeberg.org/TauCeti/mangle-go/zzsim/simrt"
)

const HarnessVersion = "mgsim-1"

// Outcome is the result of one simulated run.
type Outcome struct {
	// Class is the violation class ("" if the property held), e.g. "C06/add-return".
	Class string `json:"class,omitempty"`
	Msg   string `json:"msg,omitempty"`
	// Key identifies a known-finding trigger if the run is one (fixed probes).
	Key string `json:"key,omitempty"`
	// Nontrivial says whether the run counts under the property's stated rule.
	Nontrivial bool `json:"nontrivial"`
	// Discard is a reason why the run was vacuous (e.g. program rejected).
	Discard string `json:"discard,omitempty"`
	// Sample is a short human-readable rendering of the case.
	Sample any `json:"sample,omitempty"`
	// Interleaving hash (C18) or other distinctness key; 0 = use trace hash.
	DistinctKey uint64 `json:"-"`
}

func (o Outcome) Failed() bool { return o.Class != "" }

// Violation builds a failed outcome.
func Violation(class, format string, args ...any) Outcome {
	return Outcome{Class: class, Msg: fmt.Sprintf(format, args...), Nontrivial: true}
}

// Tier of a batch.
type Tier int

const (
	Quick Tier = iota
	Thorough
)

// Prop is one property's simulated check.
type Prop struct {
	ID   string
	Rule string // how cases are generated and what counts as non-trivial
	// Run executes one simulated run against real mangle code.
	Run func(r *simrt.Run, tier Tier) Outcome
	// Probes are fixed inputs for known findings (run once per batch).
	Probes []Probe
	// StepLimitIsViolation: a run that exceeds its step budget "fails to return".
	StepLimitIsViolation bool
	// CrashIsViolation: a worker process dying inside a run (e.g. out of
	// memory under ulimit -v) is attributed to that run and reported.
	CrashIsViolation bool
	StepCap          uint64
	// Runs per tier
	QuickRuns, ThoroughRuns int
	Level                   string
	Assumptions             []string
}

// Probe is a fixed scenario tied to a known finding.
type Probe struct {
	Key  string
	Desc string
	Run  func(r *simrt.Run) Outcome
}

var Props = map[string]*Prop{}

func Register(p *Prop) { Props[p.ID] = p }

// SafeRun executes fn under recover; a panic escaping mangle code is a
// violation of class <id>/panic (unless it is the step limit).
func SafeRun(p *Prop, r *simrt.Run, tier Tier, fn func(*simrt.Run, Tier) Outcome) (out Outcome) {
	simrt.Cur = r
	if p.StepCap > 0 {
		r.StepCap = p.StepCap
	}
	defer func() {
		simrt.Cur = nil
		if x := recover(); x != nil {
			if sl, ok := x.(simrt.StepLimit); ok {
				if p.StepLimitIsViolation {
					out = Violation(p.ID+"/no-return", "step budget exceeded (%d steps)", sl.Steps)
				} else {
					out = Outcome{Discard: "step-limit"}
				}
				return
			}
			st := string(debug.Stack())
			out = Violation(p.ID+"/panic", "panic: %v\n%s", x, trimStack(st))
		}
	}()
	return fn(r, tier)
}

// Guard runs f, converting a panic into (true, message); the step limit is re-panicked.
func Guard(f func()) (panicked bool, msg string) {
	defer func() {
		if x := recover(); x != nil {
			if _, ok := x.(simrt.StepLimit); ok {
				panic(x)
			}
			panicked = true
			msg = fmt.Sprintf("%v\n%s", x, trimStack(string(debug.Stack())))
		}
	}()
	f()
	return
}

func trimStack(s string) string {
	lines := strings.Split(s, "\n")
	var keep []string
	for _, l := range lines {
		if strings.Contains(l, "runtime/debug") || strings.Contains(l, "runtime/panic") {
			continue
		}
		keep = append(keep, l)
		if len(keep) > 24 {
			break
		}
	}
	return strings.Join(keep, "\n")
}

// ---------------------------------------------------------------------------
// batch

// Failure describes a failing run found by a batch worker.
type Failure struct {
	Index  int    `json:"index"`
	Seed   uint64 `json:"seed"`
	Class  string `json:"class"`
	Msg    string `json:"msg"`
	Replay string `json:"replay,omitempty"`
	Key    string `json:"key,omitempty"`
}

// BatchResult is what one worker reports.
type BatchResult struct {
	Prop        string         `json:"prop"`
	Runs        int            `json:"runs"`
	Nontrivial  int            `json:"nontrivial"`
	Distinct    []uint64       `json:"distinct"`
	Discards    map[string]int `json:"discards"`
	Probes      map[string]int `json:"probes"`
	Faults      map[string]int `json:"faults"`
	Samples     []any          `json:"samples"`
	Failures    []Failure      `json:"failures"`
	MapEvents   uint64         `json:"map_events"`
	Steps       uint64         `json:"steps"`
	SimTimeNs   int64          `json:"sim_time_ns"`
	TapeLen     int            `json:"tape_len"`
	Switches    int            `json:"switches"`
	Interleaves []uint64       `json:"interleavings,omitempty"`
	WallS       float64        `json:"wall_s"`
	ProbeRuns   []ProbeResult  `json:"probe_runs,omitempty"`
	TimedOut    bool           `json:"timed_out"`
}

type ProbeResult struct {
	Key   string `json:"key"`
	Desc  string `json:"desc"`
	Class string `json:"class"`
	Msg   string `json:"msg"`
}

func PropSeed(id string) uint64 {
	var h uint64 = 1469598103934665603
	for i := 0; i < len(id); i++ {
		h ^= uint64(id[i])
		h *= 1099511628211
	}
	return h
}

// RunSeed derives the seed of run i.
func RunSeed(batchSeed uint64, id string, i int) uint64 {
	return simrt.Mix(batchSeed, PropSeed(id), uint64(i))
}

// ExecSeed runs one recorded (PRNG-driven) execution.
func ExecSeed(p *Prop, seed uint64, tier Tier) (Outcome, *simrt.Run) {
	r := simrt.NewRun(simrt.NewTape(seed))
	out := SafeRun(p, r, tier, p.Run)
	return out, r
}

// ExecTape replays a tape.
func ExecTape(p *Prop, vals []uint32, tier Tier) (Outcome, *simrt.Run) {
	r := simrt.NewRun(simrt.ReplayTape(vals))
	out := SafeRun(p, r, tier, p.Run)
	return out, r
}

// Batch runs indexes [start, start+count) (stride 1) and returns the summary.
func Batch(p *Prop, batchSeed uint64, start, count int, tier Tier, deadline time.Time, replayDir string, shrinkBudget int) *BatchResult {
	t0 := time.Now()
	res := &BatchResult{Prop: p.ID, Discards: map[string]int{}, Probes: map[string]int{}, Faults: map[string]int{}}
	distinct := map[uint64]bool{}
	il := map[uint64]bool{}
	lastCase := os.Getenv("MGSIM_LASTCASE")
	for i := start; i < start+count; i++ {
		if time.Now().After(deadline) {
			res.TimedOut = true
			break
		}
		seed := RunSeed(batchSeed, p.ID, i)
		if lastCase != "" {
			// flushed before the run: if the process dies, the driver knows which run it was
			os.WriteFile(lastCase, []byte(fmt.Sprintf("%d %d\n", i, seed)), 0o644)
		}
		out, r := ExecSeed(p, seed, tier)
		res.Runs++
		res.MapEvents += r.MapEvents
		res.Steps += r.Steps
		res.SimTimeNs += int64(r.SimNow().Sub(r.ClockStart))
		res.TapeLen += len(r.Tape.Rec)
		for k, v := range r.Probes {
			res.Probes[k] += v
		}
		for k, v := range r.Faults {
			res.Faults[k] += v
		}
		if out.Discard != "" {
			res.Discards[out.Discard]++
		}
		if out.Nontrivial && !out.Failed() {
			res.Nontrivial++
			k := out.DistinctKey
			if k == 0 {
				k = r.Hash()
			}
			distinct[k] = true
			if out.DistinctKey != 0 {
				il[out.DistinctKey] = true
			}
			if len(res.Samples) < 3 && out.Sample != nil {
				res.Samples = append(res.Samples, out.Sample)
			}
		}
		if out.Failed() {
			f := Failure{Index: i, Seed: seed, Class: out.Class, Msg: out.Msg, Key: out.Key}
			vals := r.Tape.Values()
			min, mout, mrun := Shrink(p, vals, out, tier, shrinkBudget)
			path := fmt.Sprintf("%s/%s-%d.json", replayDir, p.ID, seed)
			if err := WriteReplay(path, p, seed, batchSeed, i, tier, min, mout, mrun); err != nil {
				fmt.Fprintln(os.Stderr, "cannot write replay:", err)
			}
			f.Replay = path
			f.Msg = mout.Msg
			res.Failures = append(res.Failures, f)
			break
		}
	}
	for k := range distinct {
		res.Distinct = append(res.Distinct, k)
	}
	sort.Slice(res.Distinct, func(i, j int) bool { return res.Distinct[i] < res.Distinct[j] })
	for k := range il {
		res.Interleaves = append(res.Interleaves, k)
	}
	sort.Slice(res.Interleaves, func(i, j int) bool { return res.Interleaves[i] < res.Interleaves[j] })
	res.WallS = time.Since(t0).Seconds()
	return res
}

// RunProbes executes the fixed probes of a property.
func RunProbes(p *Prop) []ProbeResult {
	var out []ProbeResult
	for _, pr := range p.Probes {
		r := simrt.NewRun(simrt.NewTape(PropSeed(pr.Key)))
		o := SafeRun(p, r, Quick, func(r *simrt.Run, _ Tier) Outcome { return pr.Run(r) })
		out = append(out, ProbeResult{Key: pr.Key, Desc: pr.Desc, Class: o.Class, Msg: firstLine(o.Msg)})
	}
	return out
}

func firstLine(s string) string {
	if i := strings.IndexByte(s, '\n'); i >= 0 {
		return s[:i]
	}
	return s
}

// ---------------------------------------------------------------------------
// replay files

type ReplayFile struct {
	Property       string        `json:"property"`
	Class          string        `json:"class"`
	Message        string        `json:"message"`
	Seed           uint64        `json:"seed"`
	BatchSeed      uint64        `json:"batch_seed"`
	Index          int           `json:"index"`
	Tier           int           `json:"tier"`
	HarnessVersion string        `json:"harness_version"`
	Tape           []uint32      `json:"tape"`
	Labelled       []simrt.Entry `json:"tape_labelled"`
	Trace          []string      `json:"trace"`
	TraceHash      string        `json:"trace_hash"`
	Sample         any           `json:"sample,omitempty"`
	Probe          string        `json:"probe,omitempty"`
	// SeedOnly: re-execute the run from its seed (no tape was saved because the process died)
	SeedOnly    bool `json:"seed_only,omitempty"`
	ExpectCrash bool `json:"expect_crash,omitempty"`
}

func WriteReplay(path string, p *Prop, seed, batchSeed uint64, idx int, tier Tier, vals []uint32, out Outcome, r *simrt.Run) error {
	rf := ReplayFile{Property: p.ID, Class: out.Class, Message: out.Msg, Seed: seed, BatchSeed: batchSeed, Index: idx, Tier: int(tier),
		HarnessVersion: HarnessVersion, Tape: vals, Labelled: r.Tape.Rec, Trace: r.Trace, TraceHash: fmt.Sprintf("%016x", r.Hash()), Sample: out.Sample}
	b, err := json.MarshalIndent(rf, "", " ")
	if err != nil {
		return err
	}
	return os.WriteFile(path, b, 0o644)
}

func ReadReplay(path string) (*ReplayFile, error) {
	b, err := os.ReadFile(path)
	if err != nil {
		return nil, err
	}
	var rf ReplayFile
	if err := json.Unmarshal(b, &rf); err != nil {
		return nil, err
	}
	return &rf, nil
}
