//go:build verifsim

package harness

import (
	"fmt"
	"strings"

	"codeberg.org/TauCeti/mangle-go/ast"
	"codeberg.org/TauCeti/mangle-go/engine"
	"codeberg.org/TauCeti/mangle-go/zzsim/simrt"
)

// Lattice part of C05: a shortest-distance program whose dist/2 is a lattice
// predicate (fundep + merge) is evaluated under permutations of its clauses
// and base facts, every store kind (base facts written in the program or
// held by the store, for layered stores in their base layer), map-order
// policies and the deterministic option; all evaluations must agree. The
// minimum is independent of the order in which candidates arrive, so the
// program's meaning does not depend on any of these.
func runC05Lattice(r *simrt.Run, tier Tier) Outcome {
	decls, rules, base := genShortestLattice(r)
	var baseText []string
	for _, f := range base {
		baseText = append(baseText, f.Src())
	}
	K := 5
	if tier == Thorough {
		K = 10
	}
	type result struct {
		stage string
		err   error
		facts map[string]bool
	}
	eval := func(text string, baseAtoms []ast.Atom, cfg EvalCfg) (res result) {
		r.OrderPolicy, r.OrderSeed = cfg.Order, cfg.OrderSeed
		defer func() { r.OrderPolicy, r.OrderSeed = simrt.OrderAsc, 0 }()
		panicked, msg := Guard(func() {
			pi, err, st := ParseAnalyze(text, nil)
			if err != nil {
				res = result{stage: st, err: err}
				return
			}
			store := NewStoreWith(cfg.Store, baseAtoms)
			var opts []engine.EvalOption
			if cfg.Determ {
				opts = append(opts, engine.WithDeterministicOrder())
			}
			if err := engine.EvalProgram(pi, store, opts...); err != nil {
				res = result{stage: "eval", err: err}
				return
			}
			facts, err := DumpStore(store, nil)
			if err != nil {
				res = result{stage: "dump", err: err}
				return
			}
			if strings.HasPrefix(text, "Package pk!") {
				un := map[string]bool{}
				for k := range facts {
					un[strings.TrimPrefix(k, "pk.")] = true
				}
				facts = un
			}
			res = result{facts: facts}
		})
		if panicked {
			res = result{stage: "panic", err: fmt.Errorf("%s", msg)}
		}
		return
	}
	var first result
	var firstDesc, firstText string
	for k := 0; k < K; k++ {
		r.Tape.Mark()
		cfg := DrawEvalCfg(r, k == 0)
		inline := k == 0 || r.Bool("c05l.inline")
		clauses := append([]string{}, rules...)
		var baseAtoms []ast.Atom
		if inline {
			clauses = append(clauses, baseText...)
		} else {
			bidx := shuffleInts(r, len(base), "c05l.baseperm")
			for _, j := range bidx {
				baseAtoms = append(baseAtoms, ToAtom(base[j]))
			}
		}
		if k > 0 {
			idx := shuffleInts(r, len(clauses), "c05l.perm")
			sh := make([]string, len(clauses))
			for i, j := range idx {
				sh[i] = clauses[j]
			}
			clauses = sh
		}
		text := strings.Join(decls, "\n") + "\n" + latticeMinDecl + strings.Join(clauses, "\n") + "\n"
		// the program inside a package (then with its base facts in the text)
		pkg := k > 0 && inline && r.OneIn(3, "c05l.package")
		if pkg {
			text = "Package pk!\n" + text
		}
		desc := fmt.Sprintf("variant %d %s base-facts-in-program=%v package=%v", k, cfg, inline, pkg)
		shown := text
		if !inline {
			shown += "facts in the store before evaluation:\n  " + strings.Join(baseText, "\n  ") + "\n"
		}
		res := eval(text, baseAtoms, cfg)
		r.Logf("%s -> stage=%q facts=%d err=%v", desc, res.stage, len(res.facts), res.err)
		if res.stage == "panic" {
			return Violation("C05/panic", "%s: panic %v\nprogram:\n%s", desc, res.err, shown)
		}
		if k == 0 {
			first, firstDesc, firstText = res, desc, shown
			if res.stage != "" {
				return Violation("C05/generator", "generated lattice program fails under the plain presentation (%s): %v\n%s", res.stage, res.err, text)
			}
			continue
		}
		if res.stage != "" {
			return Violation("C05/accept-differs", "%s: evaluated\nbut %s: stage=%q err=%v\nprogram as first presented:\n%s\nas presented now:\n%s", firstDesc, desc, res.stage, res.err, firstText, shown)
		}
		a, b := DiffSets(first.facts, res.facts)
		if len(a)+len(b) > 0 {
			return Violation("C05/facts-differ", "%s and %s disagree\nonly in first: %v\nonly in second: %v\nprogram as first presented:\n%s\nas presented now:\n%s", firstDesc, desc, a, b, firstText, shown)
		}
	}
	dist := 0
	for k := range first.facts {
		if strings.HasPrefix(k, "dist(") {
			dist++
		}
	}
	r.Probe("lattice-program")
	return Outcome{Nontrivial: dist >= 3, Sample: map[string]any{"lattice_program": strings.Split(strings.TrimSpace(firstText), "\n"), "dist_facts": dist, "evaluations": K}}
}
