//go:build verifsim

package harness

import (
	"fmt"
	"strings"

	"codeberg.org/TauCeti/mangle-go/analysis"
	"codeberg.org/TauCeti/mangle-go/ast"
	"codeberg.org/TauCeti/mangle-go/builtin"
	"codeberg.org/TauCeti/mangle-go/engine"
	"codeberg.org/TauCeti/mangle-go/factstore"
	"codeberg.org/TauCeti/mangle-go/parse"
	"codeberg.org/TauCeti/mangle-go/zzsim/simrt"
)

func init() {
	Register(&Prop{ID: "C11", Run: runC11, StepCap: 40_000_000, Probes: []Probe{{
		Key:  "any-flows-into-narrower-bound",
		Desc: "Decl e(A) bound [/any]. e(1). Decl p(A) bound [/name]. p(X) :- e(X). is accepted in error mode although p(1) is outside p's declared bound",
		Run: func(r *simrt.Run) Outcome {
			return c11ProbeProgram("Decl e0(A0) bound [/any].\ne0(1).\nDecl p0(A0) bound [/name].\np0(X) :- e0(X).\n")
		}}, {
		Key:  "map-key-contravariance",
		Desc: "Decl e(A) bound [fn:Map(/fruit, /number)]. e([/veg/kale: 1]). is accepted in error mode although the fact is outside the declared bound",
		Run: func(r *simrt.Run) Outcome {
			return c11ProbeProgram("Decl p0(A0) bound [fn:Map(/fruit, /number)].\np0([/veg/kale: 1]).\n")
		}}, {
		Key:  "narrowed-head-bound-multi-row",
		Desc: "Decl e(A) bound [/name] bound [/number]. e(/a). e(1). Decl p(A) bound [/name]. p(X) :- e(X). is accepted in error mode although p(1) is outside p's declared bound",
		Run: func(r *simrt.Run) Outcome {
			return c11ProbeProgram("Decl e0(A0) bound [/name] bound [/number].\ne0(/a).\ne0(1).\nDecl p0(A0) bound [/name].\np0(X) :- e0(X).\n")
		}}, {
		Key:  "narrowed-head-bound-singleton",
		Desc: "Decl e(A) bound [/fruit]. e(/fruit/pear). Decl p(A) bound [fn:Singleton(/fruit/apple)]. p(X) :- e(X). is accepted in error mode although p(/fruit/pear) is outside p's declared bound",
		Run: func(r *simrt.Run) Outcome {
			return c11ProbeProgram("Decl e0(A0) bound [/fruit].\ne0(/fruit/pear).\nDecl p0(A0) bound [fn:Singleton(/fruit/apple)].\np0(X) :- e0(X).\n")
		}}, {
		Key:  "struct-extra-field-accepted",
		Desc: "Decl p0(X) bound [fn:Struct(/a, /number)]. p0({/a: 1, /b: \"x\"}). - statically a struct with more fields conforms, the run-time check wants exactly the declared fields",
		Run: func(r *simrt.Run) Outcome {
			return c11ProbeProgram("Decl p0(X) bound [fn:Struct(/a, /number)].\np0({/a: 1, /b: \"x\"}).\n")
		}}, {
		Key:  "optional-field-absent-accepted",
		Desc: "Decl p0(X) bound [fn:Struct(/id, /number, fn:opt(/tag, /string))]. p0({/id: 1}). - accepted statically, the run-time check counts the optional field as missing",
		Run: func(r *simrt.Run) Outcome {
			return c11ProbeProgram("Decl p0(X) bound [fn:Struct(/id, /number, fn:opt(/tag, /string))].\np0({/id: 1}).\n")
		}}, {
		Key:  "tagged-union-unknown-tag-accepted",
		Desc: "Decl p0(E) bound [fn:TaggedUnion(/kind, /move, fn:Struct(/x, /number), /quit, fn:Struct())]. p0({/kind: /bogus, /x: 1}). - the bounds checker types the tag field as /name (expandTaggedUnionForBounds), the run-time check wants one of the declared tags",
		Run: func(r *simrt.Run) Outcome {
			return c11ProbeProgram("Decl p0(E) bound [fn:TaggedUnion(/kind, /move, fn:Struct(/x, /number), /quit, fn:Struct())].\np0({/kind: /bogus, /x: 1}).\n")
		}}, {
		Key:  "struct-field-lookup-confuses-type-and-name",
		Desc: "fn:Struct(/a, /b, /b, /number): the type of field /a is spelled like the name of the next field; :match_field(S, /b, X) must give X the type /number, foo bound [/b] must not pass",
		Run: func(r *simrt.Run) Outcome {
			return c11ProbeProgramPred("Decl bar(X) bound [fn:Struct(/a, /b, /b, /number)].\nDecl p0(X) bound [/b].\nbar({/a: /b/c, /b: 1}).\np0(X) :- bar(S), :match_field(S, /b, X).\n")
		}}, {
		Key:  "empty-list-in-two-list-types",
		Desc: "the empty list is a member of fn:List(/string) and of fn:List(/number): a join of the two must keep that alternative, p0([]) is outside p0's declared bounds",
		Run: func(r *simrt.Run) Outcome {
			return c11ProbeProgram("Decl e0(A0) bound [fn:List(/string)] bound [/number].\ne0([]).\nDecl e1(A0, A1) bound [fn:Union(fn:List(/number), /number), /number].\ne1([], 1).\nDecl p0(A0) bound [/number] bound [/string].\np0(X) :- e0(X), e1(X, W1).\n")
		}}}})
}

func c11ProbeProgramPred(text string) Outcome { return c11ProbeProgram(text) }

func c11ProbeProgram(text string) Outcome {
	{
		{
			unit, err := parse.Unit(strings.NewReader(text))
			if err != nil {
				return Violation("C11/generator", "probe does not parse: %v", err)
			}
			pi, err := analysis.AnalyzeAndCheckBounds([]parse.SourceUnit{unit}, nil, analysis.ErrorForBoundsMismatch)
			if err != nil {
				return Outcome{} // rejected: fine
			}
			store := factstore.NewSimpleInMemoryStore()
			if err := engine.EvalProgram(pi, store); err != nil {
				return Outcome{}
			}
			tc := builtin.NewTypeCheckerFromDesugared(pi.Decls)
			var bad error
			store.GetFacts(ast.NewQuery(ast.PredicateSym{Symbol: "p0", Arity: 1}), func(a ast.Atom) error {
				if err := tc.CheckTypeBounds(a); err != nil {
					bad = fmt.Errorf("accepted program stores %v: %v", a, err)
				}
				return nil
			})
			if bad != nil {
				return Violation("C11/fact-outside-declared-bounds", "%v", bad)
			}
			return Outcome{}
		}
	}
}

// tyE is a closed first-order type expression.
type tyE struct {
	K    string // number string name any prefix singleton union pair list map struct
	Name string
	Args []tyE
}

func (t tyE) Src() string {
	switch t.K {
	case "number", "string", "name", "any", "time", "duration":
		return "/" + t.K
	case "prefix":
		return t.Name
	case "singleton":
		return "fn:Singleton(" + t.Name + ")"
	case "union":
		return "fn:Union(" + t.Args[0].Src() + ", " + t.Args[1].Src() + ")"
	case "pair":
		return "fn:Pair(" + t.Args[0].Src() + ", " + t.Args[1].Src() + ")"
	case "list":
		return "fn:List(" + t.Args[0].Src() + ")"
	case "map":
		return "fn:Map(" + t.Args[0].Src() + ", " + t.Args[1].Src() + ")"
	case "struct":
		return "fn:Struct(/f, " + t.Args[0].Src() + ", /g, " + t.Args[1].Src() + ")"
	}
	panic("tyE.Src")
}

var c11Prefixes = []string{"/fruit", "/fruity", "/veg"}
var c11Names = map[string][]string{
	"/fruit":  {"/fruit/apple", "/fruit/pear", "/fruit/x/y"},
	"/fruity": {"/fruity/zest", "/fruity/x"},
	"/veg":    {"/veg/kale"},
}
var c11Loose = []string{"/a", "/fruit", "/fruitcake", "/b/c"}

// c11MapKey is the key type of every map type of the current run (drawn at its start).
var c11MapKey tyE

func genTy(r *simrt.Run, depth int) tyE {
	k := r.Choose(12, "c11.ty")
	if depth == 0 && k >= 7 {
		k = r.Choose(7, "c11.ty.base")
	}
	switch k {
	case 0, 1:
		return tyE{K: "number"}
	case 2:
		return tyE{K: "string"}
	case 3:
		return tyE{K: "name"}
	case 4:
		return tyE{K: "prefix", Name: c11Prefixes[r.Choose(len(c11Prefixes), "c11.ty.prefix")]}
	case 5:
		p := c11Prefixes[r.Choose(len(c11Prefixes), "c11.ty.sprefix")]
		ns := c11Names[p]
		return tyE{K: "singleton", Name: ns[r.Choose(len(ns), "c11.ty.sname")]}
	case 6:
		switch r.Choose(6, "c11.ty.any") {
		case 5:
			return tyE{K: "any"}
		case 4:
			return tyE{K: "any"}
		case 3:
			return tyE{K: "time"}
		case 2:
			return tyE{K: "duration"}
		}
		return tyE{K: "number"}
	case 7:
		return tyE{K: "union", Args: []tyE{genTy(r, depth-1), genTy(r, depth-1)}}
	case 8:
		return tyE{K: "pair", Args: []tyE{genTy(r, depth-1), genTy(r, depth-1)}}
	case 9:
		return tyE{K: "list", Args: []tyE{genTy(r, depth-1)}}
	case 10:
		// one key type for all map types of a run: two map types whose key
		// types differ are the trigger of the open finding map-key-contravariance
		return tyE{K: "map", Args: []tyE{c11MapKey, genTy(r, depth-1)}}
	default:
		return tyE{K: "struct", Args: []tyE{genTy(r, depth-1), genTy(r, depth-1)}}
	}
}

// genValOf draws a value that is a member of t.
func genValOf(r *simrt.Run, t tyE) Val {
	switch t.K {
	case "number":
		return IntV(int64(1 + r.Choose(4, "c11.v.num")))
	case "string":
		return StrV([]string{"s", "t", ""}[r.Choose(3, "c11.v.str")])
	case "time":
		return Val{K: VTime, N: int64(5 + r.Choose(3, "c11.v.time"))}
	case "duration":
		return Val{K: VDur, N: int64(7 + r.Choose(3, "c11.v.dur"))}
	case "name":
		all := append([]string{}, c11Loose...)
		for _, p := range c11Prefixes {
			all = append(all, c11Names[p]...)
		}
		return NameV(all[r.Choose(len(all), "c11.v.name")])
	case "any":
		return genValOf(r, []tyE{{K: "number"}, {K: "string"}, {K: "name"}}[r.Choose(3, "c11.v.any")])
	case "prefix":
		ns := c11Names[t.Name]
		return NameV(ns[r.Choose(len(ns), "c11.v.prefixed")])
	case "singleton":
		return NameV(t.Name)
	case "union":
		return genValOf(r, t.Args[r.Choose(2, "c11.v.arm")])
	case "pair":
		return PairV(genValOf(r, t.Args[0]), genValOf(r, t.Args[1]))
	case "list":
		n := r.Choose(3, "c11.v.listlen")
		var es []Val
		for i := 0; i < n; i++ {
			es = append(es, genValOf(r, t.Args[0]))
		}
		return ListV(es...)
	case "map":
		n := r.Choose(3, "c11.v.maplen")
		v := Val{K: VMap}
		seen := map[uint64]bool{}
		for i := 0; i < n; i++ {
			k := genValOf(r, t.Args[0])
			h := ToConst(k).Hash()
			if seen[h] {
				continue
			}
			seen[h] = true
			v.Elems = append(v.Elems, k, genValOf(r, t.Args[1]))
		}
		return v
	case "struct":
		return Val{K: VStruct, Elems: []Val{NameV("/f"), genValOf(r, t.Args[0]), NameV("/g"), genValOf(r, t.Args[1])}}
	}
	panic("genValOf")
}

// sibling returns a type that is close to t but (usually) different.
func sibling(r *simrt.Run, t tyE) tyE {
	switch t.K {
	case "number":
		return tyE{K: "string"}
	case "string":
		return tyE{K: "number"}
	case "time":
		return []tyE{{K: "name"}, {K: "duration"}, {K: "number"}}[r.Choose(3, "c11.sib.time")]
	case "duration":
		return []tyE{{K: "name"}, {K: "time"}, {K: "number"}}[r.Choose(3, "c11.sib.dur")]
	case "name":
		if r.OneIn(4, "c11.sib.name") {
			return tyE{K: "time"}
		}
		return tyE{K: "prefix", Name: "/fruit"}
	case "any":
		return tyE{K: "name"}
	case "prefix":
		if r.Bool("c11.sib.prefix") {
			other := map[string]string{"/fruit": "/fruity", "/fruity": "/fruit", "/veg": "/fruit"}[t.Name]
			return tyE{K: "prefix", Name: other}
		}
		ns := c11Names[t.Name]
		return tyE{K: "singleton", Name: ns[0]}
	case "singleton":
		return tyE{K: "singleton", Name: "/fruit/pear"}
	case "union":
		return t.Args[r.Choose(2, "c11.sib.arm")]
	default:
		out := t
		out.Args = append([]tyE{}, t.Args...)
		i := r.Choose(len(out.Args), "c11.sib.arg")
		if t.K == "map" {
			i = 1 // map keys are left alone: known finding map-key-contravariance
		}
		out.Args[i] = sibling(r, out.Args[i])
		return out
	}
}

// widenTy returns a type that contains every member of t.
func widenTy(r *simrt.Run, t tyE) tyE {
	switch r.Choose(3, "c11.widen") {
	case 0:
		return tyE{K: "any"}
	case 1:
		return tyE{K: "union", Args: []tyE{t, genTy(r, 0)}}
	}
	switch t.K {
	case "singleton":
		for _, p := range c11Prefixes {
			if strings.HasPrefix(t.Name, p+"/") {
				return tyE{K: "prefix", Name: p}
			}
		}
		return tyE{K: "name"}
	case "prefix":
		return tyE{K: "name"}
	case "pair", "list", "map", "struct", "union":
		out := t
		out.Args = append([]tyE{}, t.Args...)
		i := r.Choose(len(out.Args), "c11.widen.arg")
		if t.K == "map" && i == 0 {
			i = 1
		}
		out.Args[i] = widenTy(r, out.Args[i])
		return out
	}
	return tyE{K: "any"}
}

// disjointTy returns a type that shares no member with t.
func disjointTy(r *simrt.Run, t tyE) tyE {
	switch t.K {
	case "number":
		return []tyE{{K: "string"}, {K: "name"}}[r.Choose(2, "c11.disj.num")]
	case "string":
		return []tyE{{K: "number"}, {K: "name"}}[r.Choose(2, "c11.disj.str")]
	case "name", "any":
		return tyE{K: "number"}
	case "prefix":
		other := map[string]string{"/fruit": "/fruity", "/fruity": "/fruit", "/veg": "/fruit"}[t.Name]
		return tyE{K: "prefix", Name: other}
	case "singleton":
		if strings.HasPrefix(t.Name, "/veg/") {
			return tyE{K: "prefix", Name: "/fruit"}
		}
		return tyE{K: "prefix", Name: "/veg"}
	default:
		return tyE{K: "number"}
	}
}

func runC11(r *simrt.Run, tier Tier) Outcome {
	r.OrderPolicy = r.Choose(simrt.NumOrderPolicies, "c11.order")
	r.OrderSeed = uint64(r.Choose(1<<16, "c11.orderseed"))
	c11MapKey = tyE{K: "name"}
	c11MapKey = genTy(r, 0)
	var src strings.Builder
	type pred struct {
		name string
		rows [][]tyE
	}
	var edb []pred
	nE := 1 + r.Choose(3, "c11.nedb")
	perturbed := false
	for i := 0; i < nE; i++ {
		ar := 1 + r.Choose(2, "c11.arity")
		nRows := 1 + r.Choose(2, "c11.nrows")
		p := pred{name: fmt.Sprintf("e%d", i)}
		for k := 0; k < nRows; k++ {
			var row []tyE
			for c := 0; c < ar; c++ {
				row = append(row, genTy(r, 2))
			}
			p.rows = append(p.rows, row)
		}
		edb = append(edb, p)
	}
	declOf := func(name string, rows [][]tyE) string {
		ar := len(rows[0])
		var as []string
		for i := 0; i < ar; i++ {
			as = append(as, fmt.Sprintf("A%d", i))
		}
		s := fmt.Sprintf("Decl %s(%s)", name, strings.Join(as, ", "))
		for _, row := range rows {
			var ts []string
			for _, t := range row {
				ts = append(ts, t.Src())
			}
			s += " bound [" + strings.Join(ts, ", ") + "]"
		}
		return s + "."
	}
	nFacts := 0
	for _, p := range edb {
		src.WriteString(declOf(p.name, p.rows) + "\n")
		n := r.Choose(5, "c11.nfacts")
		for k := 0; k < n; k++ {
			r.Tape.Mark()
			row := p.rows[r.Choose(len(p.rows), "c11.fact.row")]
			var args []string
			for c, t := range row {
				tt := t
				if r.OneIn(25, "c11.fact.bad") {
					tt = sibling(r, t)
					perturbed = true
				}
				_ = c
				args = append(args, genValOf(r, tt).Src())
			}
			fmt.Fprintf(&src, "%s(%s).\n", p.name, strings.Join(args, ", "))
			nFacts++
		}
	}
	// derived predicates
	nI := 1 + r.Choose(3, "c11.nidb")
	for i := 0; i < nI; i++ {
		r.Tape.Mark()
		name := fmt.Sprintf("p%d", i)
		e := edb[r.Choose(len(edb), "c11.rule.edb")]
		ar := len(e.rows[0])
		vars := []string{"X", "Y"}[:ar]
		body := fmt.Sprintf("%s(%s)", e.name, strings.Join(vars, ", "))
		var rows [][]tyE
		var rule string
		switch r.Choose(14, "c11.rule.kind") {
		case 12: // put an element in front of a list column (of the element type, or of another type)
			ok := true
			for _, row := range e.rows {
				if row[0].K != "list" {
					ok = false
				}
			}
			if ok {
				for _, row := range e.rows {
					rows = append(rows, []tyE{row[0]})
				}
				et := e.rows[r.Choose(len(e.rows), "c11.cons.row")][0].Args[0]
				if r.Bool("c11.cons.other") {
					et = sibling(r, et)
					perturbed = true
				}
				others := ""
				for i := 1; i < ar; i++ {
					others += ", _"
				}
				rule = fmt.Sprintf("%s(R) :- %s(X%s), R = fn:list:cons(%s, X).", name, e.name, others, genValOf(r, et).Src())
			} else {
				rows = e.rows
				rule = fmt.Sprintf("%s(%s) :- %s.", name, strings.Join(vars, ", "), body)
			}
		case 13: // collect one or two columns into a list
			if ar == 2 && r.Bool("c11.collect.two") {
				for _, row := range e.rows {
					rows = append(rows, []tyE{{K: "list", Args: []tyE{{K: "pair", Args: []tyE{row[0], row[1]}}}}})
				}
				if r.OneIn(3, "c11.collect.declfirst") {
					// declared as a list of the first column only
					rows = nil
					for _, row := range e.rows {
						rows = append(rows, []tyE{{K: "list", Args: []tyE{row[0]}}})
					}
					perturbed = true
				}
				rule = fmt.Sprintf("%s(L) :- %s |> do fn:group_by(), let L = fn:collect(X, Y).", name, body)
			} else {
				for _, row := range e.rows {
					rows = append(rows, []tyE{{K: "list", Args: []tyE{row[0]}}})
				}
				rule = fmt.Sprintf("%s(L) :- %s |> do fn:group_by(), let L = fn:collect(X).", name, body)
			}
		case 11: // inequality filter against a constant (of the column's type in one row, possibly of no row's type)
			for _, row := range e.rows {
				rows = append(rows, []tyE{row[0]})
			}
			ct := e.rows[r.Choose(len(e.rows), "c11.ineq.row")][0]
			if r.Bool("c11.ineq.other") {
				ct = genTy(r, 0)
			}
			others := ""
			for i := 1; i < ar; i++ {
				others += ", _"
			}
			rule = fmt.Sprintf("%s(X) :- %s(X%s), X != %s .", name, e.name, others, genValOf(r, ct).Src())
		case 8: // join of two predicates on the first column (the variable is already bound when the second premise is met)
			e2 := edb[r.Choose(len(edb), "c11.rule.edb2")]
			rest := func(p pred, pre string) string {
				out := ""
				for i := 1; i < len(p.rows[0]); i++ {
					out += fmt.Sprintf(", %s%d", pre, i)
				}
				return out
			}
			for _, row := range e.rows {
				rows = append(rows, []tyE{row[0]})
			}
			if r.Bool("c11.join.declsecond") {
				rows = nil
				for _, row := range e2.rows {
					rows = append(rows, []tyE{row[0]})
				}
			}
			rule = fmt.Sprintf("%s(X) :- %s(X%s), %s(X%s).", name, e.name, rest(e, "U"), e2.name, rest(e2, "W"))
		case 9, 10: // prefix filter, positive or negated
			for _, row := range e.rows {
				rows = append(rows, []tyE{row[0]})
			}
			pfx := []string{"/fruit", "/fruit/x", "/veg", "/fruity", "/fruit/apple"}[r.Choose(5, "c11.prefix.which")]
			neg := ""
			if r.Bool("c11.prefix.neg") {
				neg = "!"
			}
			others := ""
			for i := 1; i < ar; i++ {
				others += ", _"
			}
			rule = fmt.Sprintf("%s(X) :- %s(X%s), %s:match_prefix(X, %s).", name, e.name, others, neg, pfx)
		case 0: // copy
			rows = e.rows
			rule = fmt.Sprintf("%s(%s) :- %s.", name, strings.Join(vars, ", "), body)
		case 1: // project last column
			for _, row := range e.rows {
				rows = append(rows, []tyE{row[ar-1]})
			}
			rule = fmt.Sprintf("%s(%s) :- %s.", name, vars[ar-1], body)
		case 2: // cross-row mix
			if ar == 2 {
				rows = e.rows
				rule = fmt.Sprintf("%s(X, Y) :- %s(X, _), %s(_, Y).", name, e.name, e.name)
			} else {
				rows = e.rows
				rule = fmt.Sprintf("%s(X) :- %s.", name, body)
			}
		case 3: // construct a pair
			if ar == 2 {
				for _, row := range e.rows {
					rows = append(rows, []tyE{{K: "pair", Args: []tyE{row[0], row[1]}}})
				}
				rule = fmt.Sprintf("%s(P) :- %s, P = fn:pair(X, Y).", name, body)
			} else {
				for _, row := range e.rows {
					rows = append(rows, []tyE{{K: "pair", Args: []tyE{row[0], row[0]}}})
				}
				rule = fmt.Sprintf("%s(P) :- %s, P = fn:pair(X, X).", name, body)
			}
		case 4: // construct a list
			for _, row := range e.rows {
				rows = append(rows, []tyE{{K: "list", Args: []tyE{row[0]}}})
			}
			rule = fmt.Sprintf("%s(L) :- %s, L = fn:list(X, X).", name, body)
		case 5: // destructure first column if it is a pair / list / struct / map
			var ok bool
			for _, row := range e.rows {
				t := row[0]
				switch t.K {
				case "pair":
					rows = append(rows, []tyE{t.Args[0]})
					ok = true
				}
			}
			if ok && len(rows) == len(e.rows) {
				rule = fmt.Sprintf("%s(A) :- %s, :match_pair(X, A, B).", name, body)
			} else {
				rows = nil
				for _, row := range e.rows {
					t := row[0]
					if t.K == "list" {
						rows = append(rows, []tyE{t.Args[0]})
					}
				}
				if len(rows) == len(e.rows) {
					rule = fmt.Sprintf("%s(A) :- %s, :list:member(A, X).", name, body)
				} else {
					rows = nil
					for _, row := range e.rows {
						t := row[0]
						if t.K == "struct" {
							rows = append(rows, []tyE{t.Args[0]})
						}
					}
					if len(rows) == len(e.rows) {
						rule = fmt.Sprintf("%s(A) :- %s, :match_field(X, /f, A).", name, body)
					} else {
						rows = e.rows
						rule = fmt.Sprintf("%s(%s) :- %s.", name, strings.Join(vars, ", "), body)
					}
				}
			}
		case 6: // constant head
			t := genTy(r, 1)
			rows = [][]tyE{{t}}
			rule = fmt.Sprintf("%s(%s) :- %s.", name, genValOf(r, t).Src(), body)
		default: // swap columns
			if ar == 2 {
				for _, row := range e.rows {
					rows = append(rows, []tyE{row[1], row[0]})
				}
				rule = fmt.Sprintf("%s(Y, X) :- %s.", name, body)
			} else {
				rows = e.rows
				rule = fmt.Sprintf("%s(X) :- %s.", name, body)
			}
		}
		// declared bounds: the matching ones, or a near miss
		decl := make([][]tyE, len(rows))
		for k, row := range rows {
			decl[k] = append([]tyE{}, row...)
		}
		// near misses: disjoint, wider, an extra row, narrower (sibling), a dropped row
		switch r.Choose(7, "c11.decl.kind") {
		case 5: // narrower / sibling type in one component
			k := r.Choose(len(decl), "c11.decl.row")
			c := r.Choose(len(decl[k]), "c11.decl.col")
			decl[k][c] = sibling(r, decl[k][c])
			perturbed = true
		case 6: // drop a row
			if len(decl) > 1 {
				decl = decl[:1]
				perturbed = true
			}
		case 0: // disjoint in one column of every row
			c := r.Choose(len(decl[0]), "c11.decl.col")
			for k := range decl {
				decl[k][c] = disjointTy(r, decl[k][c])
			}
			perturbed = true
		case 1: // widen one component
			k := r.Choose(len(decl), "c11.decl.wrow")
			c := r.Choose(len(decl[k]), "c11.decl.wcol")
			decl[k][c] = widenTy(r, decl[k][c])
			perturbed = true
		case 2: // add an unrelated row
			extra := make([]tyE, len(decl[0]))
			for c := range extra {
				extra[c] = genTy(r, 1)
			}
			decl = append(decl, extra)
		}
		src.WriteString(declOf(name, decl) + "\n" + rule + "\n")
		// a derived predicate may have base facts as well; they are facts of a
		// declared predicate like any other (now and then one is off by a sibling type)
		if r.OneIn(4, "c11.idbfacts") {
			nf := 1 + r.Choose(2, "c11.idbfacts.n")
			for k := 0; k < nf; k++ {
				row := decl[r.Choose(len(decl), "c11.idbfact.row")]
				var args []string
				for _, t := range row {
					tt := t
					if r.OneIn(4, "c11.idbfact.bad") {
						tt = sibling(r, t)
						perturbed = true
					}
					args = append(args, genValOf(r, tt).Src())
				}
				fmt.Fprintf(&src, "%s(%s).\n", name, strings.Join(args, ", "))
				nFacts++
			}
			r.Probe("derived-predicate-with-base-facts")
		}
	}
	// an undeclared helper with two type alternatives that is used twice: once
	// joined with a predicate that narrows it, once copied into a predicate
	// declared with only one of the alternatives. The helper's name sorts
	// before or after its users (the bounds checker visits predicates by name).
	if r.OneIn(4, "c11.helper") {
		base := []tyE{{K: "number"}, {K: "string"}, {K: "name"}, {K: "prefix", Name: "/fruit"}}
		i1 := r.Choose(len(base), "c11.helper.t1")
		i2 := (i1 + 1 + r.Choose(len(base)-1, "c11.helper.t2")) % len(base)
		t1, t2 := base[i1], base[i2]
		h := []string{"ah", "zh"}[r.Choose(2, "c11.helper.name")]
		fmt.Fprintf(&src, "Decl hsrc(A0) bound [%s].\nhsrc(%s).\n", t1.Src(), genValOf(r, t1).Src())
		if r.Bool("c11.helper.rule") {
			// one alternative from a fact, the other from a rule
			fmt.Fprintf(&src, "%s(%s).\n%s(X) :- hsrc(X).\n", h, genValOf(r, t2).Src(), h)
		} else {
			fmt.Fprintf(&src, "%s(%s).\n%s(%s).\n", h, genValOf(r, t1).Src(), h, genValOf(r, t2).Src())
		}
		narrow := fmt.Sprintf("mb(X) :- hsrc(X), %s(X).\n", h)
		out := fmt.Sprintf("Decl mo(A0) bound [%s].\nmo(X) :- %s(X).\n", t1.Src(), h)
		if r.Bool("c11.helper.order") {
			src.WriteString(narrow + out)
		} else {
			src.WriteString(out + narrow)
		}
		perturbed = true
		r.Probe("undeclared-helper-used-twice")
	}
	text := src.String()
	r.Logf("program:\n%s", text)
	var pi *analysis.ProgramInfo
	var aerr error
	var stage string
	var bad []string
	checked := 0
	panicked, msg := Guard(func() {
		unit, err := parse.Unit(strings.NewReader(text))
		if err != nil {
			aerr, stage = err, "parse"
			return
		}
		pi, aerr = analysis.AnalyzeAndCheckBounds([]parse.SourceUnit{unit}, nil, analysis.ErrorForBoundsMismatch)
		if aerr != nil {
			stage = "analysis"
			return
		}
		store := factstore.NewSimpleInMemoryStore()
		if err := engine.EvalProgram(pi, store); err != nil {
			aerr, stage = err, "eval"
			return
		}
		tc := builtin.NewTypeCheckerFromDesugared(pi.Decls)
		for _, p := range store.ListPredicates() {
			if p.IsInternalPredicate() {
				continue
			}
			store.GetFacts(ast.NewQuery(p), func(a ast.Atom) error {
				checked++
				if err := tc.CheckTypeBounds(a); err != nil {
					bad = append(bad, fmt.Sprintf("%v: %v", a, err))
				}
				return nil
			})
		}
	})
	if panicked {
		return Violation("C11/panic", "panic: %s\nprogram:\n%s", msg, text)
	}
	if stage == "parse" {
		return Violation("C11/generator", "generated program does not parse: %v\n%s", aerr, text)
	}
	if stage == "analysis" {
		r.Probe("rejected-by-bounds-or-analysis")
		return Outcome{Discard: "rejected", Nontrivial: false}
	}
	if stage == "eval" {
		// a run-time type error of an accepted program is exactly what bounds checking should exclude
		return Violation("C11/eval-error", "accepted program fails at run time: %v\nprogram:\n%s", aerr, text)
	}
	if len(bad) > 0 {
		return Violation("C11/fact-outside-declared-bounds", "analysis with bounds checking in error mode accepted the program, but after evaluation these facts are outside every declared bound row:\n  %s\nprogram:\n%s", strings.Join(bad, "\n  "), text)
	}
	if perturbed {
		r.Probe("accepted-after-perturbation")
	}
	return Outcome{Nontrivial: checked >= 1, Sample: map[string]any{"program": strings.Split(strings.TrimSpace(text), "\n"), "facts_checked": checked}}
}
