//go:build verifsim

package harness

import (
	"codeberg.org/TauCeti/mangle-go/zzsim/simrt"
)

// Shrink minimises a failing tape while the same violation class persists.
// Returns the minimal tape (normalised to what the replay actually consumed)
// with the outcome and run of its last failing execution.
func Shrink(p *Prop, vals []uint32, orig Outcome, tier Tier, budget int) ([]uint32, Outcome, *simrt.Run) {
	class := orig.Class
	execs := 0
	var bestOut Outcome
	var bestRun *simrt.Run
	var lastMarks []int // unit starts of the most recent execution with the wanted class
	try := func(c []uint32) ([]uint32, bool) {
		if execs >= budget {
			return nil, false
		}
		execs++
		out, r := ExecTape(p, c, tier)
		if out.Class != class {
			return nil, false
		}
		// normalise: what was actually consumed, trailing zeros trimmed
		n := r.Tape.Values()
		for len(n) > 0 && n[len(n)-1] == 0 {
			n = n[:len(n)-1]
		}
		bestOut, bestRun = out, r
		lastMarks = r.Tape.Marks
		return n, true
	}
	cur, ok := try(vals)
	curMarks := lastMarks
	if !ok {
		// does not even replay: return as is (the driver will flag this)
		out, r := ExecTape(p, vals, tier)
		return vals, out, r
	}
	less := func(a, b []uint32) bool {
		if len(a) != len(b) {
			return len(a) < len(b)
		}
		for i := range a {
			if a[i] != b[i] {
				return a[i] < b[i]
			}
		}
		return false
	}
	improved := true
	for improved && execs < budget {
		improved = false
		// 0. delete whole structural units (one operation, rule, fact, fault ...):
		// the workloads mark where a unit starts, a unit ends at the next mark.
		// The units behind a deleted one move up; the run draws zeros (the
		// simplest unit) for what is then missing at the end.
		for k := len(curMarks) - 1; k >= 0 && execs < budget; k-- {
			if k >= len(curMarks) {
				continue
			}
			lo, hi := curMarks[k], len(cur)
			if k+1 < len(curMarks) {
				hi = curMarks[k+1]
			}
			if lo >= len(cur) || hi > len(cur) || lo >= hi {
				continue
			}
			c := append(append([]uint32{}, cur[:lo]...), cur[hi:]...)
			if n, ok := try(c); ok && less(n, cur) {
				cur, curMarks = n, lastMarks
				improved = true
			}
		}
		// 1. delete chunks
		for size := len(cur) / 2; size >= 1; size /= 2 {
			for i := 0; i+size <= len(cur); {
				c := append(append([]uint32{}, cur[:i]...), cur[i+size:]...)
				if n, ok := try(c); ok && less(n, cur) {
					cur, curMarks = n, lastMarks
					improved = true
				} else {
					i += size
				}
				if execs >= budget {
					break
				}
			}
		}
		// 2. zero chunks
		for size := 8; size >= 1; size /= 2 {
			for i := 0; i+size <= len(cur); i += size {
				allZero := true
				for _, v := range cur[i : i+size] {
					if v != 0 {
						allZero = false
					}
				}
				if allZero {
					continue
				}
				c := append([]uint32{}, cur...)
				for j := i; j < i+size; j++ {
					c[j] = 0
				}
				if n, ok := try(c); ok && less(n, cur) {
					cur, curMarks = n, lastMarks
					improved = true
				}
				if execs >= budget {
					break
				}
			}
		}
		// 3. lower single values
		for i := 0; i < len(cur) && execs < budget; i++ {
			if cur[i] == 0 {
				continue
			}
			for _, nv := range []uint32{0, cur[i] / 2, cur[i] - 1} {
				if nv >= cur[i] {
					continue
				}
				c := append([]uint32{}, cur...)
				c[i] = nv
				if n, ok := try(c); ok && less(n, cur) {
					cur, curMarks = n, lastMarks
					improved = true
					break
				}
			}
		}
	}
	// final execution on the result so that outcome/run match the tape exactly
	out, r := ExecTape(p, cur, tier)
	if out.Class != class {
		return cur, bestOut, bestRun
	}
	return cur, out, r
}
