//go:build verifsim

package harness

import (
	"fmt"
	"sort"
	"strings"

	"codeberg.org/TauCeti/mangle-go/analysis"
	"codeberg.org/TauCeti/mangle-go/ast"
	"codeberg.org/TauCeti/mangle-go/builtin"
	"codeberg.org/TauCeti/mangle-go/engine"
	"codeberg.org/TauCeti/mangle-go/factstore"
	"codeberg.org/TauCeti/mangle-go/functional"
	"codeberg.org/TauCeti/mangle-go/provenance"
	"codeberg.org/TauCeti/mangle-go/unionfind"
	"codeberg.org/TauCeti/mangle-go/zzsim/simrt"
)

func init() {
	Register(&Prop{ID: "C15", Run: runC15, StepCap: 60_000_000})
}

type proofChecker struct {
	store   factstore.ReadOnlyFactStore
	edb     map[ast.PredicateSym]struct{}
	idTable map[string]string // content -> ID
	nodes   int
}

func (pc *proofChecker) content(n *provenance.ProofNode) string {
	var sb strings.Builder
	fmt.Fprintf(&sb, "k%d|%s|", n.Kind, n.Fact.String())
	if n.Rule != nil {
		sb.WriteString(n.Rule.String())
	}
	if n.Partial {
		sb.WriteString("|partial")
	}
	for _, k := range n.GroupKey {
		sb.WriteString("|g:" + k.String())
	}
	sb.WriteString("|[")
	for _, p := range n.Premises {
		sb.WriteString(pc.content(p))
		sb.WriteString(";")
	}
	sb.WriteString("]")
	return sb.String()
}

// renderProof prints a proof compactly (for violation messages).
func renderProof(n *provenance.ProofNode, indent string, seen map[*provenance.ProofNode]bool, sb *strings.Builder) {
	mark := ""
	if n.Partial {
		mark = " [partial]"
	}
	kind := []string{"EDB", "derived", "absent", "let", "do"}[n.Kind]
	rule := ""
	if n.Rule != nil {
		rule = "  by " + n.Rule.String()
	}
	fmt.Fprintf(sb, "%s%v (%s)%s%s\n", indent, n.Fact, kind, mark, rule)
	if seen[n] {
		return
	}
	seen[n] = true
	for _, p := range n.Premises {
		renderProof(p, indent+"  ", seen, sb)
	}
}

func complete(n *provenance.ProofNode) bool {
	if n.Partial {
		return false
	}
	for _, p := range n.Premises {
		if !complete(p) {
			return false
		}
	}
	return true
}

func matchPattern(pattern ast.Atom, fact ast.Atom) error {
	// constructor expressions such as [] or fn:pair(/a, 1) are evaluated first
	if ev, err := functional.EvalAtom(pattern, nil); err == nil {
		pattern = ev
	}
	if pattern.Predicate != fact.Predicate || len(pattern.Args) != len(fact.Args) {
		return fmt.Errorf("premise %v does not have the shape of body literal %v", fact, pattern)
	}
	for i, a := range pattern.Args {
		switch t := a.(type) {
		case ast.Constant:
			if !t.Equals(fact.Args[i]) {
				return fmt.Errorf("premise %v is not the body literal under the reported bindings (%v)", fact, pattern)
			}
		case ast.Variable:
			if t.Symbol != "_" {
				return fmt.Errorf("variable %v of body literal %v has no reported binding", t, pattern)
			}
		default:
			return fmt.Errorf("body literal %v has an unevaluated argument %v", pattern, a)
		}
	}
	return nil
}

// check validates one proof node (recursively). path holds the facts of the ancestors.
func (pc *proofChecker) check(n *provenance.ProofNode, path map[string]bool) error {
	pc.nodes++
	c := pc.content(n)
	if prev, ok := pc.idTable[c]; ok && prev != n.ID {
		return fmt.Errorf("C15/id-not-content-addressed: the same proof content has IDs %s and %s (content %s)", prev, n.ID, c)
	}
	pc.idTable[c] = n.ID
	key := n.Fact.String()
	switch n.Kind {
	case provenance.KindEDB:
		if len(n.Premises) != 0 {
			return fmt.Errorf("C15/leaf-with-premises: EDB leaf %v has premises", n.Fact)
		}
		if !pc.store.Contains(n.Fact) {
			return fmt.Errorf("C15/leaf-not-in-store: leaf %v is not in the store", n.Fact)
		}
		return nil
	case provenance.KindAbsence:
		if pc.store.Contains(n.Fact) {
			return fmt.Errorf("C15/absence-leaf-present: negated leaf %v is present in the store", n.Fact)
		}
		return nil
	}
	if n.Partial && len(n.Premises) == 0 && n.Rule == nil {
		return nil // depth cut marker
	}
	if path[key] {
		return fmt.Errorf("C15/cyclic-proof: %v is its own ancestor", n.Fact)
	}
	path[key] = true
	defer delete(path, key)
	if n.Rule == nil {
		return fmt.Errorf("C15/inner-node-without-rule: %v", n.Fact)
	}
	if !pc.store.Contains(n.Fact) {
		return fmt.Errorf("C15/proved-fact-not-in-store: %v", n.Fact)
	}
	for _, p := range n.Premises {
		if err := pc.check(p, path); err != nil {
			return err
		}
	}
	if n.Kind != provenance.KindDerived {
		// let / do nodes (recorded mode): premises must be stored facts
		for _, p := range n.Premises {
			if p.Kind != provenance.KindAbsence && !pc.store.Contains(p.Fact) {
				return fmt.Errorf("C15/transform-premise-not-in-store: %v", p.Fact)
			}
		}
		return nil
	}
	subst := ast.SubstMap{}
	for _, b := range n.Bindings {
		subst[b.Var] = b.Value
	}
	head, err := functional.EvalAtom(n.Rule.Head.ApplySubst(subst).(ast.Atom), nil)
	if err != nil {
		return fmt.Errorf("C15/head-mismatch: cannot instantiate head %v: %v", n.Rule.Head, err)
	}
	if !head.Equals(n.Fact) {
		return fmt.Errorf("C15/head-mismatch: node proves %v but rule head under the reported bindings is %v (rule %v, bindings %v)", n.Fact, head, n.Rule, n.Bindings)
	}
	if n.Partial {
		return nil // partial nodes may lack premises; completeness is judged separately
	}
	pi := 0
	for _, lit := range n.Rule.Premises {
		switch t := lit.(type) {
		case ast.Atom:
			if t.Predicate.IsBuiltin() {
				// a constraint: no premise node, it must hold under the bindings
				ga, err := functional.EvalAtom(t.ApplySubst(subst).(ast.Atom), nil)
				if err != nil {
					return fmt.Errorf("C15/constraint-unevaluable: %v under %v", t, n.Bindings)
				}
				uf := unionfind.New()
				ok, _, derr := builtin.Decide(ga, &uf)
				if derr != nil || !ok {
					return fmt.Errorf("C15/constraint-false: %v does not hold under the reported bindings %v (%v)", t, n.Bindings, derr)
				}
				continue
			}
			if pi >= len(n.Premises) {
				return fmt.Errorf("C15/premise-missing: no premise for body literal %v of %v", t, n.Rule)
			}
			p := n.Premises[pi]
			pi++
			if p.Kind == provenance.KindAbsence {
				return fmt.Errorf("C15/premise-kind: positive literal %v is matched by an absence leaf", t)
			}
			if err := matchPattern(t.ApplySubst(subst).(ast.Atom), p.Fact); err != nil {
				return fmt.Errorf("C15/premise-mismatch: %v (rule %v, bindings %v)", err, n.Rule, n.Bindings)
			}
		case ast.NegAtom:
			if pi >= len(n.Premises) {
				return fmt.Errorf("C15/premise-missing: no premise for body literal %v of %v", t, n.Rule)
			}
			p := n.Premises[pi]
			pi++
			if p.Kind != provenance.KindAbsence {
				return fmt.Errorf("C15/premise-kind: negated literal %v is matched by a %v node", t, p.Kind)
			}
			if err := matchPattern(t.Atom.ApplySubst(subst).(ast.Atom), p.Fact); err != nil {
				return fmt.Errorf("C15/premise-mismatch: %v (rule %v, bindings %v)", err, n.Rule, n.Bindings)
			}
		case ast.Eq, ast.Ineq:
			var l, rr ast.BaseTerm
			want := true
			if e, ok := t.(ast.Eq); ok {
				l, rr = e.Left, e.Right
			} else {
				e := t.(ast.Ineq)
				l, rr = e.Left, e.Right
				want = false
			}
			lv, err1 := functional.EvalExpr(l.ApplySubstBase(subst), nil)
			rv, err2 := functional.EvalExpr(rr.ApplySubstBase(subst), nil)
			if err1 != nil || err2 != nil {
				return fmt.Errorf("C15/constraint-unevaluable: %v under %v", t, n.Bindings)
			}
			if lv.Equals(rv) != want {
				return fmt.Errorf("C15/constraint-false: %v does not hold under the reported bindings %v", t, n.Bindings)
			}
		}
	}
	if pi != len(n.Premises) {
		return fmt.Errorf("C15/extra-premises: node for %v has %d premises, rule %v has %d atom literals", n.Fact, len(n.Premises), n.Rule, pi)
	}
	return nil
}

func runC15(r *simrt.Run, tier Tier) Outcome {
	o := DrawOpts(r)
	o.Aggregation, o.Lets, o.Funcs, o.Structured, o.Strings = false, false, false, false, false
	o.NegWildcard = false
	// order comparisons and other built-in predicates are body literals of a
	// transform-free program like any other (the statement makes no exception)
	o.NoOrderCmp = r.OneIn(3, "c15.nocmp")
	// equalities that bind a variable and function expressions in heads belong to
	// the documented fragment (positive Datalog with = and != premises)
	o.EqBind, o.HeadFn = r.Bool("c15.eqbind"), r.Bool("c15.headfn")
	recordedMode := r.OneIn(3, "c15.recorded")
	if recordedMode {
		// recorded mode also covers programs with transforms
		o.Aggregation, o.Lets = r.Bool("c15.rec.agg"), r.Bool("c15.rec.let")
		o.NoCollect = true
	}
	prog := GenProgram(r, o)
	src := prog.Source(true)
	hasTransforms := false
	for _, rule := range prog.Rules {
		if rule.Do != nil || len(rule.Lets) > 0 {
			hasTransforms = true
		}
	}
	r.Logf("program:\n%s", src)
	evalOrder := r.Choose(simrt.NumOrderPolicies, "c15.evalorder")
	evalSeed := uint64(r.Choose(1<<16, "c15.evalseed"))
	var pi *analysis.ProgramInfo
	evalOnce := func(rec engine.DerivationRecorder) (factstore.FactStore, map[string]bool, error, string) {
		r.OrderPolicy, r.OrderSeed = evalOrder, evalSeed
		defer func() { r.OrderPolicy, r.OrderSeed = simrt.OrderAsc, 0 }()
		p, err, stage := ParseAnalyze(src, nil)
		if err != nil {
			return nil, nil, err, stage
		}
		pi = p
		store := factstore.NewSimpleInMemoryStore()
		var opts []engine.EvalOption
		if rec != nil {
			opts = append(opts, engine.WithDerivationRecorder(rec))
		}
		if err := engine.EvalProgram(p, store, opts...); err != nil {
			return nil, nil, err, "eval"
		}
		facts, err := DumpStore(store, nil)
		return store, facts, err, ""
	}
	var store, store2 factstore.FactStore
	var facts, facts2 map[string]bool
	var err, err2 error
	var stage string
	rec := provenance.NewMemoryRecorder()
	panicked, msg := Guard(func() {
		store, facts, err, stage = evalOnce(nil)
		if err == nil {
			store2, facts2, err2, _ = evalOnce(rec)
		}
	})
	if panicked {
		return Violation("C15/panic", "evaluation panics: %s\n%s", msg, src)
	}
	if stage == "parse" {
		return Violation("C15/generator", "generated program does not parse: %v\n%s", err, src)
	}
	if err != nil {
		return Outcome{Discard: "rejected:" + stage}
	}
	if err2 != nil {
		return Violation("C15/recorder-changes-result", "evaluation with a recorder fails: %v\n%s", err2, src)
	}
	if a, b := DiffSets(facts, facts2); len(a)+len(b) > 0 {
		return Violation("C15/recorder-changes-result", "attaching a recorder changes the evaluation result\nonly without: %v\nonly with: %v\n%s", a, b, src)
	}
	_ = store2
	// goals: every fact of the store
	var goals []ast.Atom
	for _, p := range store.ListPredicates() {
		if p.IsInternalPredicate() {
			continue
		}
		store.GetFacts(ast.NewQuery(p), func(a ast.Atom) error { goals = append(goals, a); return nil })
	}
	sort.Slice(goals, func(i, j int) bool { return goals[i].String() < goals[j].String() })
	pc := &proofChecker{store: store, edb: pi.EdbPredicates, idTable: map[string]string{}}
	nPolicies := 2
	if tier == Thorough {
		nPolicies = 4
	}
	incomplete := 0
	proofsTotal := 0
	for k := 0; k < nPolicies; k++ {
		order := r.Choose(simrt.NumOrderPolicies, "c15.order")
		oseed := uint64(r.Choose(1<<16, "c15.orderseed"))
		maxProofs := []int{1, 2, 5}[r.Choose(3, "c15.maxproofs")]
		for _, g := range goals {
			var proofs []*provenance.ProofNode
			var perr error
			r.OrderPolicy, r.OrderSeed = order, oseed
			panicked, msg := Guard(func() {
				if recordedMode {
					proofs, perr = provenance.BuildFromRecording(rec, store, g, provenance.Options{MaxProofs: maxProofs})
				} else {
					proofs, perr = provenance.Explain(pi, store, g, provenance.Options{MaxProofs: maxProofs})
				}
			})
			r.OrderPolicy, r.OrderSeed = simrt.OrderAsc, 0
			mode := "Explain"
			if recordedMode {
				mode = "BuildFromRecording"
			}
			ctx := fmt.Sprintf("%s(goal %v, MaxProofs %d) under map order %s\nprogram:\n%s", mode, g, maxProofs, simrt.OrderNames[order], src)
			if panicked {
				return Violation("C15/panic", "panic: %s\n%s", msg, ctx)
			}
			if perr != nil || len(proofs) == 0 {
				return Violation("C15/no-proof", "stored fact %v has no proof (err=%v)\n%s", g, perr, ctx)
			}
			if len(proofs) > maxProofs {
				return Violation("C15/too-many-proofs", "%d proofs returned, limit %d\n%s", len(proofs), maxProofs, ctx)
			}
			anyComplete := false
			for _, p := range proofs {
				proofsTotal++
				if !p.Fact.Equals(g) {
					return Violation("C15/wrong-goal", "proof concludes %v, goal was %v\n%s", p.Fact, g, ctx)
				}
				if err := pc.check(p, map[string]bool{}); err != nil {
					cls := "C15/invalid-proof"
					if s := err.Error(); strings.HasPrefix(s, "C15/") {
						cls = s[:strings.Index(s, ":")]
					}
					return Violation(cls, "%v\n%s", err, ctx)
				}
				if complete(p) {
					anyComplete = true
				}
			}
			if !anyComplete {
				incomplete++
				if !recordedMode || !hasTransforms {
					var sb strings.Builder
					for _, p := range proofs {
						renderProof(p, "  ", map[*provenance.ProofNode]bool{}, &sb)
					}
					return Violation("C15/no-complete-proof", "stored fact %v of a transform-free program has only partial proofs (mode %s)\n%s%s", g, mode, sb.String(), ctx)
				}
			}
		}
	}
	derived := 0
	for k := range facts {
		if strings.HasPrefix(k, "p") || strings.HasPrefix(k, "g") {
			derived++
		}
	}
	if recordedMode {
		r.Probe("recorded-mode")
	}
	return Outcome{Nontrivial: derived >= 1, Sample: map[string]any{"program": strings.Split(strings.TrimSpace(src), "\n"), "goals": len(goals), "proofs_checked": proofsTotal, "proof_nodes_checked": pc.nodes, "mode": map[bool]string{true: "recorded", false: "post-hoc"}[recordedMode], "incomplete_in_recorded_mode": incomplete}}
}
