//go:build verifsim

package harness

import (
	"fmt"
	"math"
	"sort"
	"strings"
	"time"

	"codeberg.org/TauCeti/mangle-go/ast"
	"codeberg.org/TauCeti/mangle-go/factstore"
	"codeberg.org/TauCeti/mangle-go/zzsim/simrt"
)

// iv is a reference interval over Z ∪ {±inf}: bounds are nanoseconds,
// math.MinInt64 / math.MaxInt64 stand for unbounded.
type iv struct{ lo, hi int64 }

const negInf, posInf = math.MinInt64, math.MaxInt64

func (i iv) String() string {
	b := func(x int64) string {
		if x == negInf {
			return "-inf"
		}
		if x == posInf {
			return "+inf"
		}
		return fmt.Sprint(x)
	}
	return "[" + b(i.lo) + "," + b(i.hi) + "]"
}

func (i iv) contains(t int64) bool  { return i.lo <= t && t <= i.hi }
func (i iv) intersects(o iv) bool    { return i.lo <= o.hi && o.lo <= i.hi }
func (i iv) finite() bool            { return i.lo != negInf && i.hi != posInf }

func toInterval(i iv) ast.Interval {
	var s, e ast.TemporalBound
	if i.lo == negInf {
		s = ast.NegativeInfinity()
	} else {
		s = ast.NewTimestampBound(time.Unix(0, i.lo).UTC())
	}
	if i.hi == posInf {
		e = ast.PositiveInfinity()
	} else {
		e = ast.NewTimestampBound(time.Unix(0, i.hi).UTC())
	}
	return ast.Interval{Start: s, End: e}
}

func fromInterval(x ast.Interval) (iv, error) {
	var out iv
	switch x.Start.Type {
	case ast.TimestampBound:
		out.lo = x.Start.Timestamp
	case ast.NegativeInfinityBound:
		out.lo = negInf
	default:
		return out, fmt.Errorf("unexpected start bound %v", x.Start)
	}
	switch x.End.Type {
	case ast.TimestampBound:
		out.hi = x.End.Timestamp
	case ast.PositiveInfinityBound:
		out.hi = posInf
	default:
		return out, fmt.Errorf("unexpected end bound %v", x.End)
	}
	return out, nil
}

// tmodel: atom key -> set of intervals
type tmodel struct {
	facts map[string]Fact
	ivs   map[string][]iv
}

func (m *tmodel) hasExact(k string, i iv) bool {
	for _, x := range m.ivs[k] {
		if x == i {
			return true
		}
	}
	return false
}

func (m *tmodel) pairs() map[string]int {
	out := map[string]int{}
	for k, l := range m.ivs {
		for _, i := range l {
			out[k+"@"+i.String()]++
		}
	}
	return out
}

func (m *tmodel) count() int {
	n := 0
	for _, l := range m.ivs {
		n += len(l)
	}
	return n
}

func init() {
	Register(&Prop{ID: "C13", Run: runC13, Probes: []Probe{{
		Key:  "coalesce-at-minimum-timestamp",
		Desc: "two intervals of one atom that start at the smallest timestamp (as a timestamp, not as 'unbounded'), one inside the other: Coalesce must leave one interval",
		Run: func(r *simrt.Run) Outcome {
			ts := func(n int64) ast.TemporalBound { return ast.TemporalBound{Type: ast.TimestampBound, Timestamp: n} }
			st := factstore.NewTemporalStore()
			a := ast.NewAtom("p", ast.Number(1))
			st.Add(a, ast.Interval{Start: ts(math.MinInt64), End: ts(math.MinInt64 + 5)})
			st.Add(a, ast.Interval{Start: ts(math.MinInt64), End: ts(10)})
			if err := st.Coalesce(a.Predicate); err != nil {
				return Violation("C13/coalesce-error", "Coalesce = %v", err)
			}
			n := 0
			st.GetAllFacts(ast.NewQuery(a.Predicate), func(factstore.TemporalFact) error { n++; return nil })
			if n != 1 {
				return Violation("C13/coalesce-overlap", "after Coalesce p(1) still has %d intervals although [min, min+5] lies inside [min, 10]", n)
			}
			return Outcome{}
		}}}})
}

func drawInterval(r *simrt.Run, label string) iv {
	a := int64(r.Choose(25, label+".a"))
	switch r.Choose(9, label+".shape") {
	case 0: // point
		return iv{a, a}
	case 1, 2, 3: // finite, short
		return iv{a, a + int64(r.Choose(5, label+".len"))}
	case 4: // finite, any
		b := int64(r.Choose(25, label+".b"))
		if b < a {
			a, b = b, a
		}
		return iv{a, b}
	case 5:
		return iv{negInf, a}
	case 6:
		return iv{a, posInf}
	case 7:
		return iv{negInf, posInf}
	default: // adjacent-by-one to something likely present
		return iv{a + 1, a + 1 + int64(r.Choose(3, label+".len2"))}
	}
}

func runC13(r *simrt.Run, tier Tier) Outcome {
	r.OrderPolicy = r.Choose(simrt.NumOrderPolicies, "c13.order")
	r.OrderSeed = uint64(r.Choose(1<<16, "c13.orderseed"))
	limits := []int{1, 2, 3, 4, 5, 6, 0, -1}
	limit := limits[r.Choose(len(limits), "c13.limit")]
	var opts []factstore.TemporalStoreOption
	if limit != 0 {
		opts = append(opts, factstore.WithMaxIntervalsPerAtom(limit))
	}
	effLimit := limit
	if limit == 0 {
		effLimit = factstore.DefaultMaxIntervalsPerAtom
	}
	store := factstore.NewTemporalStore(opts...)
	// universe: 1-2 predicates, 1-3 atoms each (hash-collision free)
	var uni []Fact
	names := []Val{NameV("/a"), NameV("/b"), IntV(1), StrV("s"), ListV(IntV(1), IntV(2))}
	nPreds := 1 + r.Choose(2, "c13.npreds")
	for p := 0; p < nPreds; p++ {
		pn := []string{"p", "q"}[p]
		n := 1 + r.Choose(3, "c13.natoms")
		seen := map[string]bool{}
		for i := 0; i < n; i++ {
			f := Fact{Pred: pn, Args: []Val{names[r.Choose(len(names), "c13.arg0")]}}
			if p == 1 {
				f.Args = append(f.Args, names[r.Choose(len(names), "c13.arg1")])
			}
			if !seen[f.Key()] {
				seen[f.Key()] = true
				uni = append(uni, f)
			}
		}
	}
	m := &tmodel{facts: map[string]Fact{}, ivs: map[string][]iv{}}
	pick := func(l string) Fact { return uni[r.Choose(len(uni), l)] }
	var trace []string
	fail := func(class, format string, args ...any) Outcome {
		return Violation(class, "temporal store (limit %d): "+format+"\nhistory:\n  %s", append(append([]any{limit}, args...), strings.Join(trace, "\n  "))...)
	}
	scan := func(q ast.Atom, mode int, t int64, qi iv) (map[string]int, error) {
		got := map[string]int{}
		cb := func(tf factstore.TemporalFact) error {
			f, err := FromAtom(tf.Atom)
			if err != nil {
				return err
			}
			i, err := fromInterval(tf.Interval)
			if err != nil {
				return err
			}
			got[f.Key()+"@"+i.String()]++
			return nil
		}
		var err error
		switch mode {
		case 0:
			err = store.GetAllFacts(q, cb)
		case 1:
			err = store.GetFactsAt(q, time.Unix(0, t).UTC(), cb)
		default:
			err = store.GetFactsDuring(q, toInterval(qi), cb)
		}
		return got, err
	}
	cmp := func(what string, got map[string]int, want map[string]int) *Outcome {
		for k, n := range got {
			if want[k] == 0 {
				o := fail("C13/query-extra", "%s yields %s which the model does not expect", what, k)
				return &o
			}
			if n != 1 {
				o := fail("C13/query-duplicate", "%s yields %s %d times", what, k, n)
				return &o
			}
		}
		for k := range want {
			if got[k] == 0 {
				o := fail("C13/query-missing", "%s does not yield %s", what, k)
				return &o
			}
		}
		return nil
	}
	fullCheck := func() *Outcome {
		// full scan of every predicate
		for p := 0; p < nPreds; p++ {
			pn := []string{"p", "q"}[p]
			q := ast.NewQuery(ast.PredicateSym{Symbol: pn, Arity: p + 1})
			got, err := scan(q, 0, 0, iv{})
			if err != nil {
				o := fail("C13/scan-error", "GetAllFacts(%v) = %v", q, err)
				return &o
			}
			want := map[string]int{}
			for k, n := range m.pairs() {
				if strings.HasPrefix(k, pn+"(") {
					want[k] = n
				}
			}
			if o := cmp(fmt.Sprintf("GetAllFacts(%v)", q), got, want); o != nil {
				return o
			}
		}
		if c := store.EstimateFactCount(); c != m.count() {
			o := fail("C13/count", "EstimateFactCount = %d, model has %d atom-interval pairs", c, m.count())
			return &o
		}
		return nil
	}
	nOps := 1 + r.Choose(40, "c13.nops")
	if tier == Thorough {
		nOps = 1 + r.Choose(80, "c13.nops")
	}
	adds, coalesces := 0, 0
	insertMode := r.Choose(4, "c13.insertmode") // 0 random, 1 ascending, 2 descending, 3 zig-zag
	seq := 0
	for op := 0; op < nOps; op++ {
		r.Tape.Mark()
		switch r.Choose(10, "c13.op") {
		case 0, 1, 2, 3: // Add
			f := pick("c13.add")
			i := drawInterval(r, "c13.iv")
			if insertMode != 0 && i.finite() {
				// adversarial insertion orders for the AVL tree
				w := i.hi - i.lo
				switch insertMode {
				case 1:
					i.lo = int64(seq % 25)
				case 2:
					i.lo = int64(24 - seq%25)
				case 3:
					if seq%2 == 0 {
						i.lo = int64(seq / 2 % 25)
					} else {
						i.lo = int64(24 - seq/2%25)
					}
				}
				i.hi = i.lo + w
				seq++
			}
			invalid := false
			if r.OneIn(25, "c13.invalid") && i.finite() && i.lo != i.hi {
				i.lo, i.hi = i.hi, i.lo
				invalid = true
			}
			k := f.Key()
			added, err := store.Add(ToAtom(f), toInterval(i))
			trace = append(trace, fmt.Sprintf("Add(%s, %s) = %v, %v", k, i, added, err))
			switch {
			case invalid:
				r.Fault("invalid-interval")
				if err == nil || added {
					return fail("C13/invalid-accepted", "Add(%s, %s) with start > end returned (%v, %v)", k, i, added, err)
				}
			case m.hasExact(k, i):
				r.Probe("exact-duplicate-add")
				if added {
					return fail("C13/duplicate-added", "Add(%s, %s) returned true for an exact duplicate", k, i)
				}
				// a duplicate is refused quietly, also when its atom is at the limit
				// (nothing would be stored, so there is nothing for the limit to refuse)
				if err != nil {
					return fail("C13/duplicate-error", "Add(%s, %s) of an exact duplicate returned error %v", k, i, err)
				}
				if effLimit > 0 && len(m.ivs[k]) >= effLimit {
					r.Probe("exact-duplicate-at-the-limit")
				}
			case effLimit > 0 && len(m.ivs[k]) >= effLimit:
				r.Fault("interval-limit-hit")
				if err == nil || added {
					return fail("C13/limit-not-enforced", "Add(%s, %s) returned (%v, %v) although the atom already has %d intervals (limit %d)", k, i, added, err, len(m.ivs[k]), effLimit)
				}
			default:
				if err != nil || !added {
					return fail("C13/add-refused", "Add(%s, %s) returned (%v, %v), expected (true, nil)", k, i, added, err)
				}
				m.facts[k] = f
				m.ivs[k] = append(m.ivs[k], i)
				adds++
			}
		case 4: // Coalesce
			pn := []string{"p", "q"}[r.Choose(nPreds, "c13.coalesce.pred")]
			ar := 1
			if pn == "q" {
				ar = 2
			}
			// holds-set before
			probes := []int64{-1e15, -2, -1}
			for t := int64(0); t <= 27; t++ {
				probes = append(probes, t)
			}
			probes = append(probes, 1e15)
			before := map[string][]bool{}
			for k, l := range m.ivs {
				if !strings.HasPrefix(k, pn+"(") {
					continue
				}
				for _, t := range probes {
					h := false
					for _, i := range l {
						if i.contains(t) {
							h = true
						}
					}
					before[k] = append(before[k], h)
				}
			}
			err := store.Coalesce(ast.PredicateSym{Symbol: pn, Arity: ar})
			trace = append(trace, fmt.Sprintf("Coalesce(%s/%d) = %v", pn, ar, err))
			if err != nil {
				return fail("C13/coalesce-error", "Coalesce returned %v", err)
			}
			coalesces++
			// read back this predicate
			got, err := scan(ast.NewQuery(ast.PredicateSym{Symbol: pn, Arity: ar}), 0, 0, iv{})
			if err != nil {
				return fail("C13/scan-error", "GetAllFacts after Coalesce = %v", err)
			}
			after := map[string][]iv{}
			for key, n := range got {
				if n != 1 {
					return fail("C13/query-duplicate", "after Coalesce the scan yields %s %d times", key, n)
				}
				at := strings.LastIndex(key, "@")
				var lo, hi string
				body := key[at+2 : len(key)-1]
				parts := strings.Split(body, ",")
				lo, hi = parts[0], parts[1]
				pb := func(s string) int64 {
					if s == "-inf" {
						return negInf
					}
					if s == "+inf" {
						return posInf
					}
					var v int64
					fmt.Sscan(s, &v)
					return v
				}
				after[key[:at]] = append(after[key[:at]], iv{pb(lo), pb(hi)})
			}
			for k, hs := range before {
				for j, t := range probes {
					h := false
					for _, i := range after[k] {
						if i.contains(t) {
							h = true
						}
					}
					if h != hs[j] {
						return fail("C13/coalesce-changes-meaning", "Coalesce changed whether %s holds at instant %d: before %v, after %v (intervals now %v)", k, t, hs[j], h, after[k])
					}
				}
			}
			for k := range after {
				if _, ok := before[k]; !ok {
					return fail("C13/coalesce-invents", "after Coalesce atom %s appears which had no interval", k)
				}
			}
			for k, l := range after {
				var fin []iv
				for _, i := range l {
					if i.finite() {
						fin = append(fin, i)
					}
				}
				sort.Slice(fin, func(a, b int) bool { return fin[a].lo < fin[b].lo })
				for j := 1; j < len(fin); j++ {
					if fin[j].lo <= fin[j-1].hi+1 {
						if fin[j].lo <= fin[j-1].hi {
							return fail("C13/coalesce-overlap", "after Coalesce %s has overlapping finite intervals %v and %v", k, fin[j-1], fin[j])
						}
						return fail("C13/coalesce-adjacent", "after Coalesce %s has adjacent finite intervals %v and %v", k, fin[j-1], fin[j])
					}
				}
				if len(m.ivs[k]) > len(l) {
					r.Probe("coalesce-merged-intervals")
				}
				for _, i := range l {
					for _, o := range m.ivs[k] {
						if o.finite() && i.finite() && o != i && o.lo >= i.lo && o.hi <= i.hi && (o.hi+1 == i.hi || true) {
							_ = o
						}
					}
				}
				m.ivs[k] = l // resync: the statement fixes meaning, not representation
			}
			for k := range before {
				if _, ok := after[k]; !ok {
					delete(m.ivs, k)
				}
			}
		case 5, 6: // point query
			f := pick("c13.at")
			t := int64(r.Choose(28, "c13.at.t")) - 1
			q, cons := patternOf(r, f, "c13.at.pat")
			got, err := scan(q, 1, t, iv{})
			trace = append(trace, fmt.Sprintf("GetFactsAt(%v, %d) -> %d, %v", q, t, len(got), err))
			if err != nil {
				return fail("C13/query-error", "GetFactsAt = %v", err)
			}
			want := map[string]int{}
			for k, l := range m.ivs {
				g := m.facts[k]
				if !matchesCons(g, f, cons) {
					continue
				}
				for _, i := range l {
					if i.contains(t) {
						want[k+"@"+i.String()] = 1
						if i.lo == t || i.hi == t {
							r.Probe("point-query-on-interval-end")
						}
					}
				}
			}
			if o := cmp(fmt.Sprintf("GetFactsAt(%v, %d)", q, t), got, want); o != nil {
				return *o
			}
		case 7: // range query
			f := pick("c13.during")
			qi := drawInterval(r, "c13.during.iv")
			inverted := false
			if qi.lo != negInf && qi.hi != posInf && qi.lo < qi.hi && r.OneIn(8, "c13.during.inverted") {
				// a range that ends before it starts contains no instant
				qi.lo, qi.hi = qi.hi, qi.lo
				inverted = true
				r.Probe("inverted-range-query")
			}
			q, cons := patternOf(r, f, "c13.during.pat")
			got, err := scan(q, 2, 0, qi)
			trace = append(trace, fmt.Sprintf("GetFactsDuring(%v, %s) -> %d, %v", q, qi, len(got), err))
			if err != nil {
				return fail("C13/query-error", "GetFactsDuring = %v", err)
			}
			want := map[string]int{}
			for k, l := range m.ivs {
				g := m.facts[k]
				if !matchesCons(g, f, cons) {
					continue
				}
				for _, i := range l {
					if !inverted && i.intersects(qi) {
						want[k+"@"+i.String()] = 1
						if i.hi == qi.lo || i.lo == qi.hi {
							r.Probe("range-query-touching-end")
						}
					}
				}
			}
			if o := cmp(fmt.Sprintf("GetFactsDuring(%v, %s)", q, qi), got, want); o != nil {
				return *o
			}
		case 8: // ContainsAt
			f := pick("c13.contains")
			t := int64(r.Choose(28, "c13.contains.t")) - 1
			got := store.ContainsAt(ToAtom(f), time.Unix(0, t).UTC())
			want := false
			for _, i := range m.ivs[f.Key()] {
				if i.contains(t) {
					want = true
				}
			}
			trace = append(trace, fmt.Sprintf("ContainsAt(%s, %d) = %v", f.Key(), t, got))
			if got != want {
				return fail("C13/contains-at", "ContainsAt(%s, %d) = %v, model says %v (intervals %v)", f.Key(), t, got, want, m.ivs[f.Key()])
			}
		case 9: // Merge from another temporal store
			other := factstore.NewTemporalStore(factstore.WithMaxIntervalsPerAtom(-1))
			n := r.Choose(4, "c13.merge.n")
			type pr struct {
				f Fact
				i iv
			}
			var ps []pr
			for j := 0; j < n; j++ {
				f := pick("c13.merge")
				i := drawInterval(r, "c13.merge.iv")
				other.Add(ToAtom(f), toInterval(i))
				ps = append(ps, pr{f, i})
			}
			// would any atom exceed the limit?
			exceed := false
			cnt := map[string]int{}
			tmp := map[string]bool{}
			for k, l := range m.ivs {
				cnt[k] = len(l)
			}
			dupAt := map[string]bool{}
			for _, p := range ps {
				id := p.f.Key() + "@" + p.i.String()
				if m.hasExact(p.f.Key(), p.i) || tmp[id] {
					dupAt[p.f.Key()] = true
					continue
				}
				tmp[id] = true
				cnt[p.f.Key()]++
				if effLimit > 0 && cnt[p.f.Key()] > effLimit {
					exceed = true
				}
			}
			err := store.Merge(other)
			trace = append(trace, fmt.Sprintf("Merge(%d pairs) = %v", len(ps), err))
			// a duplicate pair arriving while its atom is at the limit may be
			// answered by the limit error instead of a quiet refusal
			mayErr := false
			_ = dupAt
			if !exceed && !(mayErr && err != nil) {
				if err != nil {
					return fail("C13/merge-error", "Merge returned %v although no atom exceeds the limit", err)
				}
				for _, p := range ps {
					if !m.hasExact(p.f.Key(), p.i) {
						m.facts[p.f.Key()] = p.f
						m.ivs[p.f.Key()] = append(m.ivs[p.f.Key()], p.i)
					}
				}
			} else {
				r.Fault("merge-hits-interval-limit")
				// The limit may also be met exactly at a duplicate: an error is
				// then acceptable but not required. When some atom really exceeds
				// it, an error is required.
				if err == nil && exceed {
					return fail("C13/merge-limit-not-enforced", "Merge returned nil although an atom exceeds the interval limit %d", effLimit)
				}
				// partial merge: resync, requiring old ⊆ new ⊆ old ∪ other
				newm := &tmodel{facts: m.facts, ivs: map[string][]iv{}}
				for p := 0; p < nPreds; p++ {
					pn := []string{"p", "q"}[p]
					got, err := scan(ast.NewQuery(ast.PredicateSym{Symbol: pn, Arity: p + 1}), 0, 0, iv{})
					if err != nil {
						return fail("C13/scan-error", "scan after failed Merge = %v", err)
					}
					for key := range got {
						at := strings.LastIndex(key, "@")
						k := key[:at]
						var found *iv
						for _, i := range m.ivs[k] {
							if k+"@"+i.String() == key {
								x := i
								found = &x
							}
						}
						for _, p := range ps {
							if p.f.Key()+"@"+p.i.String() == key {
								x := p.i
								found = &x
								newm.facts[k] = p.f
							}
						}
						if found == nil {
							return fail("C13/merge-invents", "after a failed Merge the store holds %s which is neither old nor merged", key)
						}
						newm.ivs[k] = append(newm.ivs[k], *found)
					}
				}
				for k, l := range m.ivs {
					for _, i := range l {
						if !newm.hasExact(k, i) {
							return fail("C13/merge-loses", "after a failed Merge the store lost %s@%s", k, i)
						}
					}
				}
				m = newm
			}
		}
		if o := fullCheck(); o != nil {
			return *o
		}
	}
	r.Logf("limit=%d order=%s insertmode=%d history: %s", limit, simrt.OrderNames[r.OrderPolicy], insertMode, strings.Join(trace, "; "))
	return Outcome{Nontrivial: adds >= 3, Sample: map[string]any{"limit": limit, "ops": trace}}
}

func patternOf(r *simrt.Run, f Fact, label string) (ast.Atom, []int) {
	var args []ast.BaseTerm
	var cons []int
	for j, a := range f.Args {
		if r.Choose(3, label) == 0 {
			args = append(args, ToConst(a))
			cons = append(cons, j)
		} else {
			args = append(args, ast.Variable{Symbol: fmt.Sprintf("X%d", j)})
		}
	}
	return ast.Atom{Predicate: ast.PredicateSym{Symbol: f.Pred, Arity: len(f.Args)}, Args: args}, cons
}

func matchesCons(g, f Fact, cons []int) bool {
	if g.Pred != f.Pred || len(g.Args) != len(f.Args) {
		return false
	}
	for _, j := range cons {
		if g.Args[j].Key() != f.Args[j].Key() {
			return false
		}
	}
	return true
}
