//go:build verifsim

package harness

import (
	"fmt"
	"sort"
	"strings"

	"codeberg.org/TauCeti/mangle-go/ast"
	"codeberg.org/TauCeti/mangle-go/engine"
	"codeberg.org/TauCeti/mangle-go/zzsim/simrt"
)

// runC04Do is the "statement order in a do-transform" sub-workload of C04:
// one aggregating rule whose transform has reducer statements and ordinary
// (row-wise) let statements in a drawn order; an ordinary statement reads a
// group-by key, a variable defined by an earlier statement, by a later
// statement, or itself. The oracle is the statement's: whatever analysis
// accepts must evaluate without panic, without a "variable has no value"
// failure, and store ground facts only. (Which of these rules are rejected
// is analysis' business; nothing here demands a rejection.)
func runC04Do(r *simrt.Run) Outcome {
	r.OrderPolicy = r.Choose(simrt.NumOrderPolicies, "c04d.order")
	r.OrderSeed = uint64(r.Choose(1<<16, "c04d.orderseed"))
	defer func() { r.OrderPolicy, r.OrderSeed = simrt.OrderAsc, 0 }()
	var sb strings.Builder
	nf := 1 + r.Choose(6, "c04d.nfacts")
	for i := 0; i < nf; i++ {
		fmt.Fprintf(&sb, "q(%d, %d).\n", r.Choose(3, "c04d.x"), r.Choose(5, "c04d.y"))
	}
	n := 2 + r.Choose(3, "c04d.nstmt")
	vars := make([]string, n)
	isRed := make([]bool, n)
	for i := range vars {
		vars[i] = fmt.Sprintf("V%d", i)
		isRed[i] = r.Bool("c04d.reducer")
	}
	isRed[r.Choose(n, "c04d.onereducer")] = true
	stmts := make([]string, n)
	shape := "in-order"
	for i := range vars {
		if isRed[i] {
			stmts[i] = fmt.Sprintf("let %s = %s", vars[i], []string{"fn:sum(Y)", "fn:count()", "fn:max(Y)", "fn:min(Y)"}[r.Choose(4, "c04d.red")])
			continue
		}
		ref := "X"
		switch k := r.Choose(4, "c04d.ref"); {
		case k == 1 && i > 0:
			ref = vars[r.Choose(i, "c04d.earlier")]
		case k == 2 && i < n-1:
			ref = vars[i+1+r.Choose(n-1-i, "c04d.later")]
			shape = "forward-reference"
		case k == 3:
			ref = vars[i]
			shape = "self-reference"
		}
		stmts[i] = fmt.Sprintf("let %s = %s(%s, 1)", vars[i], []string{"fn:plus", "fn:mult"}[r.Choose(2, "c04d.fn")], ref)
	}
	fmt.Fprintf(&sb, "p(X, %s) :- q(X, Y) |> do fn:group_by(X), %s.\n", strings.Join(vars, ", "), strings.Join(stmts, ", "))
	text := sb.String()
	r.Logf("program:\n%s", text)
	pi, err, st := ParseAnalyze(text, nil)
	if st == "parse" {
		return Violation("C04/generator", "do-transform program does not parse: %v\n%s", err, text)
	}
	if err != nil {
		r.Probe("do-statement-order-rejected")
		return Outcome{Nontrivial: shape != "in-order", Sample: map[string]any{"verdict": "rejected", "shape": shape, "error": firstLine(err.Error())}}
	}
	store := NewStore(r.Choose(NumStoreKinds, "c04d.store"))
	var evalErr error
	panicked, msg := Guard(func() { evalErr = engine.EvalProgram(pi, store) })
	if panicked {
		return Violation("C04/panic", "panic: %s\n%s", msg, text)
	}
	if evalErr != nil {
		return Violation("C04/eval-error", "an accepted program fails during evaluation (%s in the do-transform): %v\n%s", shape, evalErr, text)
	}
	var bad []string
	store.GetFacts(ast.NewQuery(ast.PredicateSym{Symbol: "p", Arity: n + 1}), func(a ast.Atom) error {
		if !a.IsGround() {
			bad = append(bad, a.String())
		}
		return nil
	})
	if len(bad) > 0 {
		sort.Strings(bad)
		return Violation("C04/non-ground-fact", "non-ground facts stored: %v\n%s", bad, text)
	}
	r.Probe("do-statement-order-accepted")
	return Outcome{Nontrivial: true, Sample: map[string]any{"verdict": "accepted", "shape": shape}}
}
