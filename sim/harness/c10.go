//go:build verifsim

package harness

import (
	"os"
	"bytes"
	"fmt"
	"io"
	"strings"

	"codeberg.org/TauCeti/mangle-go/analysis"
	"codeberg.org/TauCeti/mangle-go/ast"
	"codeberg.org/TauCeti/mangle-go/engine"
	"codeberg.org/TauCeti/mangle-go/factstore"
	"codeberg.org/TauCeti/mangle-go/parse"
	"codeberg.org/TauCeti/mangle-go/zzsim/simrt"
)

func init() {
	Register(&Prop{ID: "C10", Run: runC10, StepCap: 200_000_000, StepLimitIsViolation: true, CrashIsViolation: true})
}

// c10Source feeds program text through the whole front end.
func c10Source(text []byte, rd io.Reader) (stage string) {
	unit, err := parse.Unit(rd)
	if err != nil {
		return "parse-error"
	}
	// (the mode that only logs mismatches walks the same inference and goes on)
	analysis.AnalyzeAndCheckBounds([]parse.SourceUnit{unit}, nil, analysis.LogBoundsMismatch)
	pi, err := analysis.AnalyzeAndCheckBounds([]parse.SourceUnit{unit}, nil, analysis.ErrorForBoundsMismatch)
	if err != nil {
		return "analysis-error"
	}
	store := factstore.NewSimpleInMemoryStore()
	ts := factstore.NewTemporalStore()
	if err := engine.EvalProgram(pi, store, engine.WithCreatedFactLimit(64), engine.WithTemporalStore(ts), engine.WithEvaluationTime(c14Base)); err != nil {
		return "eval-error"
	}
	return "evaluated"
}

// c10Fragments feeds lines to the fragment parsers.
func c10Fragments(text []byte) {
	for _, line := range strings.Split(string(text), "\n") {
		if len(line) > 300 {
			line = line[:300]
		}
		parse.Clause(line)
		parse.Term(line)
		parse.BaseTerm(line)
		parse.Atom(line)
		parse.LiteralOrFormula(line)
		parse.PredicateName(line)
	}
}

// c10Column feeds a simplecolumn medium to both readers.
func c10Column(r *simrt.Run, c codec, medium []byte, mode int, failAt int) string {
	mk := func() (io.ReadCloser, error) {
		rd := NewSimReader(r, medium, mode, 7)
		rd.FailAt = failAt
		return decoder(c, rd)
	}
	res := ""
	dec, err := mk()
	if err != nil {
		res += "open-error "
	} else {
		store := factstore.NewSimpleInMemoryStore()
		if err := (factstore.SimpleColumn{}).ReadInto(dec, store); err != nil {
			res += "readinto-error "
		} else {
			res += "readinto-ok "
		}
		dec.Close()
	}
	lazy, err := factstore.NewSimpleColumnStore(mk)
	if err != nil {
		return res + "lazy-open-error"
	}
	for _, p := range lazy.ListPredicates() {
		args := make([]ast.BaseTerm, p.Arity)
		for i := range args {
			args[i] = ast.Variable{Symbol: fmt.Sprintf("X%d", i)}
		}
		lazy.GetFacts(ast.Atom{Predicate: p, Args: args}, func(ast.Atom) error { return nil })
		lazy.Contains(ast.Atom{Predicate: p, Args: args})
	}
	lazy.EstimateFactCount()
	return res + "lazy-ok"
}

var c10ByteClasses = [][]byte{
	{'"'}, {'\\'}, {'%'}, {'/'}, {'0', '9', '-'}, {'\n'}, {0}, {0x80, 0xff, 0xc3}, {'(', ')', '[', ']', '{', '}'}, {'@', '<', '!', '.', ',', ':', '|', '>', '_'}, {' ', '\t', '\r'},
}

func runC10(r *simrt.Run, tier Tier) Outcome {
	r.OrderPolicy = r.Choose(simrt.NumOrderPolicies, "c10.order")
	kind := r.Choose(3, "c10.artefact") // 0 program text, 1 declared/temporal program text, 2 simplecolumn file
	var artefact []byte
	c := codec(0)
	desc := ""
	switch kind {
	case 0:
		o := DrawOpts(r)
		prog := GenProgram(r, o)
		// predicate names (and with them the alphabetical order in which the
		// bounds checker visits predicates) are shuffled against the order of
		// definition, clauses are permuted
		if r.Bool("c10.rename") {
			prog = MakeVariant(r, prog, false, false).Prog
		}
		artefact = []byte(prog.Source(true))
		desc = "generated program"
	case 1:
		// declarations with bounds + temporal clauses
		var sb strings.Builder
		sb.WriteString("Decl ev(A) temporal bound [/name].\n")
		fmt.Fprintf(&sb, "ev(/a)@[%s, %s].\nev(/b)@[%s].\n", c14TS(1), c14TS(9), c14TS(4))
		sb.WriteString("Decl e0(A0, A1) bound [/number, /any] bound [.List</number>, /any].\n")
		sb.WriteString("e0(1, fn:pair(/a, \"x\\\"y\")).\ne0([1, 2], b\"\\x00z\").\n")
		sb.WriteString("d(X) :- <-[0s, 5s] ev(X).\nh(X)@[S, E] :- ev(X)@[S, E], !d(X).\n")
		sb.WriteString("p(X, N) :- e0(X, _) |> do fn:group_by(X), let N = fn:count().\n")
		sb.WriteString("q(Y) :- e0(X, P), :match_pair(P, Y, Z), X < 3 |> let W = fn:plus(X, 1).\n")
		sb.WriteString("s({/f: 1, /g: [/a: 2.5]}, `long\nstring`).\n")
		// declarations with descriptors, constructor calls, lattice/merge declarations
		sb.WriteString("Decl syn(X) descr [synthetic()] bound [/number].\nsyn(7).\n")
		sb.WriteString("Decl doc(X, Y) descr [doc(\"a documented predicate\"), arg(X, \"first\"), arg(Y, \"second\"), mode('+', '-')] bound [/number, /string].\ndoc(1, \"one\").\n")
		sb.WriteString("Decl best(K, V) descr [fundep([K], [V]), merge([V], \"better\")] bound [/name, /number].\nDecl better(A, B, C) descr [mode('+', '+', '-'), deferred()].\nbetter(A, B, C) :- A < B, C = B.\nbetter(A, B, C) :- A >= B, C = A.\nsrc(/k, 1).\nsrc(/k, 5).\nbest(K, V) :- src(K, V).\n")
		sb.WriteString("mk(fn:map(/a, 1, /b, 2), fn:struct(/f, 1, /g, \"x\"), fn:list(1, 2, 3), fn:tuple(1, /a, \"s\")).\n")
		sb.WriteString("acc(V) :- mk(M, S, L, T), :match_entry(M, /a, V).\nfld(V) :- mk(M, S, L, T), :match_field(S, /g, V).\n")
		sb.WriteString("mk2(R) :- src(K, V) |> let R = fn:map(K, V).\nmk3(R) :- src(K, V) |> let R = fn:struct(/k, K, /v, V).\n")
		sb.WriteString("hm(fn:map(K, V), fn:struct(/k, K), fn:list(K, V), fn:pair(K, V)) :- src(K, V).\n")
		// a predicate that is only used negated, by predicates that sort before and after it
		sb.WriteString("sa(\"a\").\nsb(\"b\").\nnq(X) :- sa(X), sb(X).\nna(X) :- sb(X), !nq(X).\nnb(X) :- sb(X), !nq(X), sa(Y), !nq(Y).\nnz(X) :- sa(X), !nq(X).\n")
		sb.WriteString("Decl tu(E) bound [.TaggedUnion</kind, /a : .Struct</x : /number>, /b : .Struct<>>].\ntu({/kind: /a, /x: 1}).\n")
		artefact = []byte(sb.String())
		desc = "declared/temporal program"
	default:
		pool := richPool(r, 6)
		src := factstore.NewMultiIndexedArrayInMemoryStore()
		n := 1 + r.Choose(8, "c10.nfacts")
		for i := 0; i < n; i++ {
			f := Fact{Pred: []string{"p", "q", "zero"}[r.Choose(3, "c10.pred")]}
			ar := map[string]int{"p": 1, "q": 2, "zero": 0}[f.Pred]
			for a := 0; a < ar; a++ {
				f.Args = append(f.Args, pool[r.Choose(len(pool), "c10.arg")])
			}
			src.Add(ToAtom(f))
		}
		c = codec(r.Choose(3, "c10.codec"))
		w := NewSimWriter(r)
		if err := writeStore(factstore.SimpleColumn{Deterministic: true}, src, c, w); err != nil {
			return Outcome{Discard: "write-failed"}
		}
		artefact = w.Data
		desc = "simplecolumn file (" + c.String() + ")"
	}
	if len(artefact) == 0 {
		return Outcome{Discard: "empty-artefact"}
	}
	if kind == 1 {
		// the artefact itself must be valid, or the faults only ever reach the parser
		if st := c10Source(artefact, bytes.NewReader(artefact)); st != "evaluated" {
			return Violation("C10/generator", "the fixed declared/temporal artefact is not accepted as it stands (%s)\n%s", st, artefact)
		}
	}
	if len(artefact) > 4000 {
		artefact = artefact[:4000]
	}
	fault := r.Choose(11, "c10.fault")
	faultNames := []string{"truncate", "flip-byte", "insert-byte", "delete-byte", "header-tamper", "read-error", "empty-line", "delete-token", "duplicate-token", "swap-tokens", "retype-constant"}
	if kind == 2 && fault == 10 {
		fault = 1
	}
	tokens := c10Tokens(artefact)
	if kind != 2 && fault == 4 {
		fault = 0
	}
	// offsets: all of them (thorough, small artefacts) or a drawn sample
	var offsets []int
	nOff := 48
	if tier == Thorough {
		nOff = 400
	}
	if len(artefact) <= nOff {
		for i := 0; i <= len(artefact); i++ {
			offsets = append(offsets, i)
		}
	} else {
		start := r.Choose(len(artefact), "c10.offstart")
		stride := 1 + len(artefact)/nOff
		for i := 0; i < nOff; i++ {
			offsets = append(offsets, (start+i*stride)%(len(artefact)+1))
		}
	}
	cls := c10ByteClasses[r.Choose(len(c10ByteClasses), "c10.byteclass")]
	mode := r.Choose(4, "c10.readmode")
	outcomes := map[string]int{}
	cases := 0
	for ci, off := range offsets {
		b := cls[ci%len(cls)]
		var mutated []byte
		failAt := -1
		switch fault {
		case 0:
			mutated = artefact[:off]
		case 1:
			if off >= len(artefact) {
				continue
			}
			mutated = append([]byte{}, artefact...)
			if mutated[off] == b {
				b ^= 0x20
			}
			mutated[off] = b
		case 2:
			mutated = append(append(append([]byte{}, artefact[:off]...), b), artefact[off:]...)
		case 3:
			if off >= len(artefact) {
				continue
			}
			mutated = append(append([]byte{}, artefact[:off]...), artefact[off+1:]...)
		case 4: // header tampering: replace the k-th number of the header
			if c != 0 {
				mutated = artefact[:off] // compressed: fall back to truncation
				break
			}
			lines := strings.Split(string(artefact), "\n")
			vals := []string{"-1", "0", "1", "2147483648", "4294967296", "4294967297", "99999999999999999999", "", "x"}
			li := ci % len(lines)
			fs := strings.Fields(lines[li])
			if len(fs) == 0 {
				continue
			}
			fs[len(fs)-1-(ci/len(lines))%len(fs)] = vals[ci%len(vals)]
			lines[li] = strings.Join(fs, " ")
			mutated = []byte(strings.Join(lines, "\n"))
		case 5:
			mutated = artefact
			failAt = off
		case 6:
			mutated = append(append(append([]byte{}, artefact[:off]...), '\n', '\n'), artefact[off:]...)
		case 10: // a constant is replaced by a constant of another kind: the text stays well-formed, the types do not
			var consts [][2]int
			for _, t := range tokens {
				switch ch := artefact[t[0]]; {
				case ch >= '0' && ch <= '9', ch == '"', ch == '/' && t[1]-t[0] > 1:
					consts = append(consts, t)
				}
			}
			if len(consts) == 0 {
				continue
			}
			t := consts[(off*7+ci)%len(consts)]
			repl := []string{"1", "\"a\"", "/a", "2.5", "[1]", "fn:pair(1, /a)", "b\"x\""}[(off+ci)%7]
			mutated = append(append(append([]byte{}, artefact[:t[0]]...), repl...), artefact[t[1]:]...)
		case 7, 8, 9: // token-level: delete / duplicate / swap with the next token
			if len(tokens) < 3 {
				continue
			}
			ti := (off*7 + ci) % (len(tokens) - 1)
			a, b := tokens[ti], tokens[ti+1]
			switch fault {
			case 7:
				lo, hi := a[0], a[1]
				// take an adjacent comma along, so that argument lists shrink by one element
				if ci%2 == 0 {
					if artefact[b[0]] == ',' {
						hi = b[1]
					} else if ti > 0 && artefact[tokens[ti-1][0]] == ',' {
						lo = tokens[ti-1][0]
					}
				}
				mutated = append(append([]byte{}, artefact[:lo]...), artefact[hi:]...)
			case 8:
				mutated = append(append(append([]byte{}, artefact[:a[1]]...), artefact[a[0]:a[1]]...), artefact[a[1]:]...)
				if ti > 0 && (artefact[a[0]] != ',' && artefact[a[0]] != '(') {
					// duplicate "token," so that lists grow by one element
					mutated = append(append(append(append([]byte{}, artefact[:a[1]]...), ','), artefact[a[0]:a[1]]...), artefact[a[1]:]...)
				}
			default:
				mutated = append([]byte{}, artefact[:a[0]]...)
				mutated = append(mutated, artefact[b[0]:b[1]]...)
				mutated = append(mutated, artefact[a[1]:b[0]]...)
				mutated = append(mutated, artefact[a[0]:a[1]]...)
				mutated = append(mutated, artefact[b[1]:]...)
			}
		}
		cases++
		var res string
		panicked, msg := Guard(func() {
			if kind == 2 {
				res = c10Column(r, c, mutated, mode, failAt)
			} else {
				rd := NewSimReader(r, mutated, mode, 11)
				rd.FailAt = failAt
				res = c10Source(mutated, rd)
				if ci%8 == 0 {
					c10Fragments(mutated)
				}
			}
		})
		if panicked {
			return Violation("C10/panic", "%s with fault %s at offset %d (byte %q, delivery mode %d) makes the front end panic:\n%s\ninput (%d bytes): %q", desc, faultNames[fault], off, b, mode, msg, len(mutated), clipBytes(mutated))
		}
		outcomes[res]++
		r.Fault(faultNames[fault])
	}
	return Outcome{Nontrivial: cases >= 2, Sample: map[string]any{"artefact": desc, "bytes": len(artefact), "fault": faultNames[fault], "cases": cases, "outcomes": outcomes}}
}

func clipBytes(b []byte) []byte {
	if len(b) > 700 && os.Getenv("MGSIM_FULLINPUT") == "" {
		return append(append([]byte{}, b[:700]...), []byte("...")...)
	}
	return b
}

var _ = bytes.Equal

// c10Tokens splits text into token spans: runs of name/number characters and
// single punctuation characters (blanks are skipped).
func c10Tokens(text []byte) [][2]int {
	var out [][2]int
	isWord := func(b byte) bool {
		return b == '_' || b == '/' || b == ':' || b == '.' && false || b >= '0' && b <= '9' || b >= 'a' && b <= 'z' || b >= 'A' && b <= 'Z' || b >= 0x80
	}
	for i := 0; i < len(text); {
		switch {
		case text[i] == ' ' || text[i] == '\n' || text[i] == '\t' || text[i] == '\r':
			i++
		case text[i] == '"':
			j := i + 1
			for j < len(text) && text[j] != '"' {
				if text[j] == '\\' {
					j++
				}
				j++
			}
			if j < len(text) {
				j++
			}
			if j > len(text) {
				j = len(text)
			}
			out = append(out, [2]int{i, j})
			i = j
		case isWord(text[i]):
			j := i
			for j < len(text) && isWord(text[j]) {
				j++
			}
			out = append(out, [2]int{i, j})
			i = j
		default:
			out = append(out, [2]int{i, i + 1})
			i++
		}
	}
	return out
}
