//go:build verifsim

package harness

import (
	"codeberg.org/TauCeti/mangle-go/ast"
	"fmt"
	"runtime/debug"
	"strings"

	"codeberg.org/TauCeti/mangle-go/engine"
	"codeberg.org/TauCeti/mangle-go/factstore"
	"codeberg.org/TauCeti/mangle-go/zzsim/simrt"
)

// Lattice part of C17: predicates declared with fundep + merge are folded
// into the store by a different branch of the engine (facts are replaced, not
// only added), so the limit has to be enforced there as well.
//
//   - family "diverging": the recursion reaches a new key every round, the
//     model is infinite: every limit has to end in an error after boundedly
//     many created facts;
//   - family "shortest": a shortest-distance program over parallel weighted
//     edges read by several rules. One round derives more candidates than
//     survive the merge. The model is finite; it is computed by the same
//     engine without a limit, and a limited evaluation has to either report
//     an error or deliver exactly that model.
func runC17Lattice(r *simrt.Run, tier Tier) Outcome {
	const minDecl = latticeMinDecl
	diverges := r.Bool("c17l.diverge")
	// base facts are either written in the program (they then count against
	// the limit) or are in the store before evaluation starts
	preload := !r.OneIn(3, "c17l.inline-base")
	var base []Fact
	var decls, clauses []string
	temporalDiv := false
	divKind := 0
	if diverges {
		divKind = r.Choose(3, "c17l.divkind")
	}
	switch {
	case diverges && divKind == 1:
		// one key whose value grows for ever under a merge that keeps the larger
		// value: every round replaces the fact, the store never grows
		decls = append(decls, "Decl cnt(K, V) descr [fundep([K], [V]), merge([V], \"maxv\")].",
			"Decl maxv(A, B, C) descr [mode('+', '+', '-'), deferred()].")
		clauses = append(clauses, "maxv(A, B, C) :- A < B, C = B.", "maxv(A, B, C) :- B <= A, C = A.")
		base = append(base, Fact{Pred: "dseed", Args: []Val{IntV(0)}})
		decls = append(decls, "Decl dseed(A).")
		clauses = append(clauses, "cnt(/a, X) :- dseed(X).")
		if r.Bool("c17l.samekey.let") {
			clauses = append(clauses, fmt.Sprintf("cnt(K, W) :- cnt(K, V) |> let W = fn:plus(V, %d).", 1+r.Choose(3, "c17l.samekey.step")))
		} else {
			clauses = append(clauses, fmt.Sprintf("cnt(K, W) :- cnt(K, V), W = fn:plus(V, %d).", 1+r.Choose(3, "c17l.samekey.step")))
		}
		r.Probe("lattice-same-key-diverging")
	case diverges && divKind == 2:
		// derived facts with an interval go to the temporal store only
		temporalDiv = true
		decls = append(decls, "Decl tn(X) temporal.")
		clauses = append(clauses, fmt.Sprintf("tn(0)%s.", c14Iv{3, 3 + int64(r.Choose(4, "c17l.tdiv.len"))}.ann()),
			fmt.Sprintf("tn(Y)@[S, E] :- tn(X)@[S, E], Y = fn:plus(X, %d).", 1+r.Choose(3, "c17l.tdiv.step")))
		r.Probe("temporal-diverging")
	case diverges:
		decls = append(decls, "Decl best(L, S) descr [fundep([L], [S]), merge([S], \"minv\")].")
		k1 := 1 + r.Choose(3, "c17l.step")
		k2 := r.Choose(4, "c17l.cost")
		base = append(base, Fact{Pred: "dseed", Args: []Val{IntV(0)}})
		decls = append(decls, "Decl dseed(A).")
		clauses = append(clauses, "best(X, 0) :- dseed(X).",
			fmt.Sprintf("best(L2, S2) :- best(L, S), L2 = fn:plus(L, %d), S2 = fn:plus(S, %d).", k1, k2))
		if r.Bool("c17l.second-rule") {
			clauses = append(clauses, fmt.Sprintf("best(L2, S2) :- best(L, S), L2 = fn:plus(L, %d), S2 = fn:plus(S, 1).", k1))
		}
	default:
		d, c, b := genShortestLattice(r)
		decls, clauses, base = append(decls, d...), append(clauses, c...), append(base, b...)
		if r.OneIn(3, "c17l.worse") {
			// a rule that keeps deriving a value the merge throws away: nothing new, evaluation must end
			clauses = append(clauses, fmt.Sprintf("dist(X, %d) :- dist(X, D).", 60+r.Choose(40, "c17l.worse.v")))
			r.Probe("lattice-rederives-dominated-value")
		}
	}
	var baseText []string
	for _, f := range base {
		baseText = append(baseText, f.Src())
	}
	if !preload {
		clauses = append(clauses, baseText...)
	}
	idx := shuffleInts(r, len(clauses), "c17l.perm")
	shuffled := make([]string, len(clauses))
	for i, j := range idx {
		shuffled[i] = clauses[j]
	}
	src := strings.Join(decls, "\n") + "\n" + minDecl + strings.Join(shuffled, "\n") + "\n"
	shown := src
	if preload {
		shown += "facts in the store before evaluation:\n  " + strings.Join(baseText, "\n  ") + "\n"
	}
	r.Logf("lattice program (diverges=%v):\n%s", diverges, shown)
	cfg := drawStoreCfg(r)
	withTemporal := r.Bool("c17l.temporalstore")
	type res struct {
		stage   string
		err     error
		facts   map[string]bool
		over    *budgetExceeded
		panicM  string
		created int
	}
	eval := func(limit, budget int) (out res) {
		r.OrderPolicy, r.OrderSeed = cfg.Order, cfg.OrderSeed
		defer func() { r.OrderPolicy, r.OrderSeed = simrt.OrderAsc, 0 }()
		defer func() {
			if x := recover(); x != nil {
				switch v := x.(type) {
				case budgetExceeded:
					out.over = &v
				case simrt.StepLimit:
					panic(x)
				default:
					out.panicM = fmt.Sprintf("%v\n%s", x, trimStack(string(debug.Stack())))
				}
			}
		}()
		pi, err, st := ParseAnalyze(src, nil)
		if err != nil {
			return res{stage: st, err: err}
		}
		inner := NewStore(cfg.Store)
		if preload {
			for _, f := range base {
				inner.Add(ToAtom(f))
			}
		}
		store := newCountingStore(inner, &out.created, budget)
		var opts []engine.EvalOption
		if limit > 0 {
			opts = append(opts, engine.WithCreatedFactLimit(limit))
		}
		if withTemporal || temporalDiv {
			opts = append(opts, engine.WithTemporalStore(countingTemporalStore{TemporalFactStore: factstore.NewTemporalStore(), created: &out.created, budget: budget}))
		}
		if cfg.Determ {
			opts = append(opts, engine.WithDeterministicOrder())
		}
		if err := engine.EvalProgram(pi, store, opts...); err != nil {
			out.stage, out.err = "eval", err
			return
		}
		facts, err := DumpStore(inner, nil)
		if err != nil {
			out.stage, out.err = "dump", err
			return
		}
		out.facts = facts
		return
	}
	var want map[string]bool
	if !diverges {
		full := eval(0, 100000)
		if full.panicM != "" {
			return Violation("C17/panic", "panic without a limit: %s\nprogram:\n%s", full.panicM, src)
		}
		if full.stage == "parse" || full.stage == "analysis" {
			return Violation("C17/generator", "generated lattice program rejected (%s): %v\n%s", full.stage, full.err, src)
		}
		if full.stage != "" || full.over != nil {
			return Outcome{Discard: "lattice-reference-run-failed"}
		}
		want = full.facts
	}
	lmax := 24
	if !diverges {
		lmax = len(want) + 4
		if lmax > 60 {
			lmax = 60
		}
	}
	if tier == Thorough && diverges {
		lmax = 48
	}
	errs, oks := 0, 0
	for L := 1; L <= lmax; L++ {
		budget := 2 * (len(clauses) + 8*(len(clauses)+2)*(L+1))
		out := eval(L, budget)
		ctx := fmt.Sprintf("limit=%d %s temporal-store-configured=%v\nprogram (%s):\n%s", L, cfg, withTemporal, map[bool]string{true: "infinite model through a lattice predicate", false: "finite model, lattice predicate"}[diverges], shown)
		if out.over != nil {
			return Violation("C17/unbounded-creation", "evaluation created %d facts, more than the bound %d for this limit and program size\n%s", out.over.n, budget, ctx)
		}
		if out.panicM != "" {
			return Violation("C17/panic", "panic: %s\n%s", out.panicM, ctx)
		}
		if out.stage == "parse" || out.stage == "analysis" {
			return Violation("C17/generator", "generated lattice program rejected (%s): %v\n%s", out.stage, out.err, src)
		}
		if out.err != nil {
			errs++
			r.Fault("fact-limit-abort")
			continue
		}
		oks++
		if diverges {
			return Violation("C17/silent-partial", "evaluation of a program with an infinite model returned without error (store has %d facts)\n%s", len(out.facts), ctx)
		}
		missing, extra := DiffSets(want, out.facts)
		if len(missing)+len(extra) > 0 {
			return Violation("C17/silent-partial", "evaluation returned without error but the store differs from the model computed without a limit\nmissing: %v\nextra: %v\n%s", missing, extra, ctx)
		}
	}
	if errs > 0 && oks > 0 {
		r.Probe("both-outcomes-for-one-program")
	}
	r.Probe("lattice-predicate-under-limit")
	return Outcome{Nontrivial: errs >= 1, Sample: map[string]any{"lattice_program": strings.Split(strings.TrimSpace(src), "\n"), "diverges": diverges, "limits_tried": lmax, "limits_with_error": errs, "limits_complete": oks}}
}

// genShortestLattice draws a shortest-distance program over parallel weighted
// edges read by several rules; dist/2 is a lattice predicate (fundep + merge
// keeping the smaller distance). Returns declarations, rules and base facts.
func genShortestLattice(r *simrt.Run) (decls, clauses []string, base []Fact) {
	decls = append(decls, "Decl dist(X, D) descr [fundep([X], [D]), merge([D], \"minv\")].")
	keys := 2 + r.Choose(6, "c17l.keys")
	nEdge := 1 + r.Choose(4, "c17l.edgepreds")
	base = append(base, Fact{Pred: "start", Args: []Val{NameV("/s")}})
	decls = append(decls, "Decl start(A).")
	clauses = append(clauses, "dist(X, 0) :- start(X).")
	for e := 1; e <= nEdge; e++ {
		decls = append(decls, fmt.Sprintf("Decl edge%d(A, B, C).", e))
		if r.Bool("c17l.edge-first") {
			clauses = append(clauses, fmt.Sprintf("dist(Y, D) :- edge%d(X, Y, W), dist(X, C), D = fn:plus(C, W).", e))
		} else {
			clauses = append(clauses, fmt.Sprintf("dist(Y, D) :- dist(X, C), edge%d(X, Y, W), D = fn:plus(C, W).", e))
		}
		for j := 1; j <= keys; j++ {
			r.Tape.Mark()
			from := "/s"
			if j > 1 && r.OneIn(3, "c17l.chain") {
				from = fmt.Sprintf("/k%d", 1+r.Choose(j-1, "c17l.from"))
			}
			base = append(base, Fact{Pred: fmt.Sprintf("edge%d", e), Args: []Val{NameV(from), NameV(fmt.Sprintf("/k%d", j)), IntV(int64(1 + r.Choose(50, "c17l.w")))}})
		}
	}
	return
}

const latticeMinDecl = "Decl minv(A, B, C) descr [mode('+', '+', '-'), deferred()].\nminv(A, B, C) :- A < B, C = A.\nminv(A, B, C) :- B <= A, C = B.\n"

// countingTemporalStore counts the temporal facts created through it.
type countingTemporalStore struct {
	factstore.TemporalFactStore
	created *int
	budget  int
}

func (c countingTemporalStore) Add(a ast.Atom, i ast.Interval) (bool, error) {
	ok, err := c.TemporalFactStore.Add(a, i)
	if ok {
		*c.created++
		if *c.created > c.budget {
			panic(budgetExceeded{*c.created})
		}
	}
	return ok, err
}
