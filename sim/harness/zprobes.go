//go:build verifsim

package harness

// Fixed scenarios added in round 5: inputs on which the unmodified tree broke
// a property (reported by sub-agents, reproduced here through the real API,
// then repaired by fix: commits). A probe that fails and is not listed as an
// open finding in known_findings.txt is a violation, so each of these
// reports the defect again should it ever return. This file's init runs after
// the registering inits (file name order).

import (
	"bytes"
	"fmt"
	"io"
	"os"
	"path/filepath"
	"sort"
	"strings"
	"time"

	"codeberg.org/TauCeti/mangle-go/ast"
	"codeberg.org/TauCeti/mangle-go/engine"
	"codeberg.org/TauCeti/mangle-go/factstore"
	"codeberg.org/TauCeti/mangle-go/functional"
	"codeberg.org/TauCeti/mangle-go/interpreter"
	"codeberg.org/TauCeti/mangle-go/parse"
	"codeberg.org/TauCeti/mangle-go/provenance"
	"codeberg.org/TauCeti/mangle-go/zzsim/simrt"
)

func addProbes(id string, ps ...Probe) {
	p := Props[id]
	if p == nil {
		panic("zprobes: property " + id + " is not registered")
	}
	p.Probes = append(p.Probes, ps...)
}

// probeCase is one program with the facts expected for some predicates.
type probeCase struct {
	name     string
	text     string
	preds    []string // predicate symbols whose facts are compared
	want     string   // space separated, sorted
	temporal bool     // evaluate with a temporal store, evaluation time 2024-03-01
	limit    int      // created-fact limit (0: none)
	wantErr  bool     // evaluation must fail (with an error, not a panic)
}

// evalProbeCases evaluates every case under every map-order policy and
// compares the facts of the named predicates with the expectation.
func evalProbeCases(r *simrt.Run, class string, cases []probeCase) Outcome {
	defer func() { r.OrderPolicy, r.OrderSeed = simrt.OrderAsc, 0 }()
	for _, c := range cases {
		for pol := 0; pol < simrt.NumOrderPolicies; pol++ {
			r.OrderPolicy, r.OrderSeed = pol, uint64(pol)
			pi, err, st := ParseAnalyze(c.text, nil)
			if err != nil {
				return Violation(class+"-rejected", "%s: probe program rejected (%s): %v\n%s", c.name, st, err, c.text)
			}
			store := NewStore(StoreSimple)
			var opts []engine.EvalOption
			if c.temporal {
				opts = append(opts, engine.WithTemporalStore(factstore.NewTemporalStore()),
					engine.WithEvaluationTime(time.Date(2024, 3, 1, 0, 0, 0, 0, time.UTC)))
			}
			if c.limit > 0 {
				opts = append(opts, engine.WithCreatedFactLimit(c.limit))
			}
			err = engine.EvalProgram(pi, store, opts...)
			if c.wantErr {
				if err == nil {
					return Violation(class, "%s: evaluation returned no error under map order %s\n%s", c.name, simrt.OrderNames[pol], c.text)
				}
				continue
			}
			if err != nil {
				return Violation(class+"-eval-error", "%s: evaluation of the accepted program fails: %v\n%s", c.name, err, c.text)
			}
			var got []string
			for _, p := range store.ListPredicates() {
				keep := false
				for _, w := range c.preds {
					keep = keep || w == p.Symbol
				}
				if !keep {
					continue
				}
				store.GetFacts(ast.NewQuery(p), func(a ast.Atom) error {
					got = append(got, a.String())
					return nil
				})
			}
			sort.Strings(got)
			if strings.Join(got, " ") != c.want {
				return Violation(class, "%s: expected %s, got %s under map order %s\n%s", c.name, c.want, strings.Join(got, " "), simrt.OrderNames[pol], c.text)
			}
		}
	}
	return Outcome{}
}

const probeEmp = `
emp(/a, /x)@[2024-01-01, 2024-06-30].
emp(/b, /x)@[2024-01-01, 2024-06-30].
emp(/c, /y)@[2024-01-01, 2024-06-30].
emp(/d, /y)@[2023-01-01, 2023-06-30].
dept(/x). dept(/y).
`

var temporalAggCases = []probeCase{
	{name: "variable bound only by the temporal literal", temporal: true, preds: []string{"cnt"}, want: "cnt(/x,2) cnt(/y,1)",
		text: probeEmp + "cnt(D, C) :- dept(D), emp(E, D)@[2024-02-01] |> do fn:group_by(D), let C = fn:count().\n"},
	{name: "temporal literal is the only premise", temporal: true, preds: []string{"cnt"}, want: "cnt(/x,2) cnt(/y,1)",
		text: probeEmp + "cnt(D, C) :- emp(E, D)@[2024-02-01] |> do fn:group_by(D), let C = fn:count().\n"},
	{name: "group-by key bound only by the temporal literal", temporal: true, preds: []string{"cnt"}, want: "cnt(/a,2) cnt(/b,2) cnt(/c,2)",
		text: probeEmp + "cnt(E, C) :- emp(E, D)@[2024-02-01], dept(D2) |> do fn:group_by(E), let C = fn:count().\n"},
	{name: "interval variables", temporal: true, preds: []string{"cnt"}, want: "cnt(/x,2) cnt(/y,2)",
		text: probeEmp + "cnt(D, C) :- dept(D), emp(E, D)@[S, T] |> do fn:group_by(D), let C = fn:count().\n"},
}

func init() {
	addProbes("C02", Probe{
		Key:  "temporal-literal-in-aggregating-body",
		Desc: "rewrite.getVars ignored temporal literals: variables bound only by p(..)@[..] were projected out of the internal relation of an aggregating rule (wrong counts; a panic in evalDo when a group-by key was among them)",
		Run: func(r *simrt.Run) Outcome {
			return evalProbeCases(r, "C02/temporal-body-reduced-wrongly", temporalAggCases)
		}}, Probe{
		Key:  "wildcard-column-dropped-from-internal-relation",
		Desc: "a wildcard in a multi-premise aggregating body had no column in the internal relation: solutions that differ only there collapsed, while the single-premise path counts them (docs: examples/project_aggregation.mg)",
		Run: func(r *simrt.Run) Outcome {
			facts := "q(1, 2). q(1, 3). q(2, 2). r(1). r(2). h(1, /a, 2). h(1, /b, 2). h(1, /c, 5).\n"
			return evalProbeCases(r, "C02/wildcard-solutions-collapsed", []probeCase{
				{name: "single premise", preds: []string{"c1"}, want: "c1(1,2) c1(2,1)",
					text: facts + "c1(X, N) :- q(X, _) |> do fn:group_by(X), let N = fn:count().\n"},
				{name: "two premises", preds: []string{"c2"}, want: "c2(1,2) c2(2,1)",
					text: facts + "c2(X, N) :- q(X, _), r(X) |> do fn:group_by(X), let N = fn:count().\n"},
				{name: "sum over rows that differ in a wildcard column", preds: []string{"c3"}, want: "c3(1,9)",
					text: facts + "c3(X, S) :- h(X, _, H), r(X) |> do fn:group_by(X), let S = fn:sum(H).\n"},
			})
		}})
	addProbes("C04", Probe{
		Key:  "aggregating-rule-over-temporal-literal-panics",
		Desc: "an accepted aggregating rule whose group-by key is bound only by a temporal literal made evalDo panic (index out of range)",
		Run: func(r *simrt.Run) Outcome {
			return evalProbeCases(r, "C04/accepted-program-fails", temporalAggCases[1:3])
		}})
	addProbes("C16", Probe{
		Key:  "definition-ending-in-comment-swallows-next",
		Desc: "Define joined its buffer and the new text without a line break: a definition ending in a comment swallowed the next one, which was nevertheless reported as accepted",
		Run: func(r *simrt.Run) Outcome {
			root, err := os.MkdirTemp("", "c16probe")
			if err != nil {
				return Outcome{Discard: "tempdir"}
			}
			defer os.RemoveAll(root)
			it := interpreter.New(io.Discard, root, nil)
			if err := it.Define("p(1). # done."); err != nil {
				return Violation("C16/generator", "first definition rejected: %v", err)
			}
			if err := it.Define("q(2)."); err != nil {
				return Violation("C16/accept-differs", "q(2). after a definition ending in a comment is rejected (%v); a fresh interpreter given the two live definitions accepts both", err)
			}
			got := c16ProbeQuery(it, "q")
			if got != "q(2)" {
				return Violation("C16/state-differs", "after Define(\"p(1). # done.\") and Define(\"q(2).\"), both accepted, ?q(X) answers %q; a fresh interpreter loading the two definitions answers q(2)", got)
			}
			return Outcome{}
		}}, Probe{
		Key:  "failed-load-drops-interactive-definitions",
		Desc: "Load dropped the interactive definitions before reading the files: a load that was rejected (missing file, syntax error, analysis error) still changed the visible state",
		Run: func(r *simrt.Run) Outcome {
			root, err := os.MkdirTemp("", "c16probe")
			if err != nil {
				return Outcome{Discard: "tempdir"}
			}
			defer os.RemoveAll(root)
			os.WriteFile(filepath.Join(root, "syntax.mg"), []byte("fa(/k1).\nga(Y :- fa(Y).\n"), 0o644)
			os.WriteFile(filepath.Join(root, "unsafe.mg"), []byte("fz(/k1).\nbad(Y) :- fz(Z).\n"), 0o644)
			os.WriteFile(filepath.Join(root, "ok.mg"), []byte("fo(/k1).\n"), 0o644)
			for _, path := range []string{"missing.mg", "syntax.mg", "unsafe.mg", "ok.mg,missing.mg"} {
				it := interpreter.New(io.Discard, root, nil)
				if err := it.Define("p(1)."); err != nil {
					return Violation("C16/generator", "definition rejected: %v", err)
				}
				if err := it.Load(path); err == nil {
					return Violation("C16/generator", "load of %s succeeded", path)
				}
				if got := c16ProbeQuery(it, "p"); got != "p(1)" {
					return Violation("C16/rejected-command-changed-state", "Define(\"p(1).\") then the rejected ::load %s: ?p(X) answers %q, before the rejected command it answered p(1)", path, got)
				}
			}
			return Outcome{}
		}})
	addProbes("C19", Probe{
		Key:  "map-keys-with-equal-hash",
		Desc: "ast.Map / ast.Struct ordered hash-equal keys (5 and 5ns) by Go map iteration: a written fact reloaded to an unequal fact and deterministic bytes varied",
		Run: func(r *simrt.Run) Outcome {
			defer func() { r.OrderPolicy, r.OrderSeed = simrt.OrderAsc, 0 }()
			build := func() (ast.Atom, error) {
				m := map[*ast.Constant]*ast.Constant{}
				k1, k2, k3 := ast.Number(5), ast.Duration(5), ast.Float64(0)
				k4 := ast.Number(int64(0))
				v1, v2, v3, v4 := ast.String("n"), ast.String("d"), ast.String("f"), ast.String("z")
				m[&k1], m[&k2], m[&k3], m[&k4] = &v1, &v2, &v3, &v4
				return ast.NewAtom("p", *ast.Map(m)), nil
			}
			var firstBytes []byte
			var first ast.Atom
			for pol := 0; pol < simrt.NumOrderPolicies; pol++ {
				for seed := uint64(0); seed < 3; seed++ {
					r.OrderPolicy, r.OrderSeed = pol, seed
					a, _ := build()
					src := factstore.NewSimpleInMemoryStore()
					src.Add(a)
					var buf bytes.Buffer
					if err := (factstore.SimpleColumn{Deterministic: true}).WriteTo(src, &buf); err != nil {
						return Outcome{}
					}
					back := factstore.NewSimpleInMemoryStore()
					if err := (factstore.SimpleColumn{}).ReadInto(bytes.NewReader(buf.Bytes()), back); err != nil {
						return Violation("C19/reload-error", "%v written as %q cannot be read back: %v", a, buf.String(), err)
					}
					if !back.Contains(a) {
						var got []string
						back.GetFacts(ast.NewQuery(a.Predicate), func(x ast.Atom) error { got = append(got, x.String()); return nil })
						return Violation("C19/reload-mismatch", "%v (map keys with equal hash codes) was written as %q and reloads to %v, which is not equal to it (map order %s/%d)", a, buf.String(), got, simrt.OrderNames[pol], seed)
					}
					if firstBytes == nil {
						firstBytes, first = buf.Bytes(), a
					} else if !bytes.Equal(firstBytes, buf.Bytes()) || !first.Equals(a) {
						return Violation("C19/deterministic-bytes-differ", "the same map built twice gives %v and %v, deterministic bytes %q and %q (map order %s/%d)", first, a, firstBytes, buf.Bytes(), simrt.OrderNames[pol], seed)
					}
				}
			}
			return Outcome{}
		}})
}

func c16ProbeQuery(it *interpreter.Interpreter, pred string) string {
	q, err := it.ParseQuery(pred)
	if err != nil {
		return "parse-query error: " + err.Error()
	}
	res, err := it.Query(q)
	if err != nil {
		return "query error: " + err.Error()
	}
	var out []string
	for _, t := range res {
		out = append(out, fmt.Sprint(t))
	}
	sort.Strings(out)
	return strings.Join(out, " ")
}

// ---------------------------------------------------------------------------
// C15, C17

func init() {
	addProbes("C15", Probe{
		Key:  "built-in-predicate-premise-has-no-proof",
		Desc: "a body literal over a built-in predicate (X < 5, :match_prefix, ...) was looked up in the fact store by Explain (ErrNoProof for a stored fact) and left out as 'partial' by BuildFromRecording",
		Run: func(r *simrt.Run) Outcome {
			for _, c := range []struct{ text, goal string }{
				{"q(1). q(7). p(X) :- q(X), X < 5.\n", "p(1)"},
				{"q(1). q(7). p(X) :- q(X), X >= 5.\n", "p(7)"},
				{"q(/a/b). q(/c). p(X) :- q(X), :match_prefix(X, /a).\n", "p(/a/b)"},
				{"q(\"abc\"). q(\"xbc\"). p(X) :- q(X), :string:starts_with(X, \"ab\").\n", "p(\"abc\")"},
				{"q([1, 2]). q([]). p(H) :- q(L), :match_cons(L, H, T).\n", "p(1)"},
			} {
				for _, recorded := range []bool{false, true} {
					if o := c15ProbeComplete(c.text, c.goal, recorded, provenance.Options{}); o.Failed() {
						return o
					}
				}
			}
			return Outcome{}
		}}, Probe{
		Key:  "truncated-proof-memoized-and-reused-at-shallow-depth",
		Desc: "a proof cut at MaxDepth was memoized per fact and reused where the same fact is needed close to the root: a stored fact with a three-step derivation got only a partial proof",
		Run: func(r *simrt.Run) Outcome {
			var sb strings.Builder
			sb.WriteString("a(1). never(2). b(X) :- a(X). c(X) :- b(X). d(0, X) :- c(X).\n")
			for i := 0; i < 62; i++ {
				fmt.Fprintf(&sb, "succ(%d, %d).\n", i, i+1)
			}
			sb.WriteString("d(N, X) :- succ(M, N), d(M, X).\ntop(X) :- d(62, X), never(X).\ntop(X) :- c(X).\n")
			return c15ProbeComplete(sb.String(), "top(1)", false, provenance.Options{})
		}})
	addProbes("C17", Probe{
		Key:  "dominated-values-alternate-forever",
		Desc: "a merge (lattice) predicate whose stored value dominates two values that two rules derive from each other: the dominated facts alternated in the delta store for ever, no limit check fired (finite model, limit configured, evaluation never returned)",
		Run: func(r *simrt.Run) Outcome {
			text := "Decl p(K, V) descr [fundep([K], [V]), merge([V], \"mx\")].\n" +
				"Decl mx(A, B, C) descr [mode('+', '+', '-'), deferred()].\n" +
				"mx(A, B, C) :- A < B, C = B.\nmx(A, B, C) :- B <= A, C = A.\n" +
				"q(/k, 1).\np(K, V) :- q(K, V).\np(K, 2) :- p(K, 1).\np(K, 1) :- p(K, 2).\n"
			pi, err, st := ParseAnalyze(text, nil)
			if err != nil {
				return Violation("C17/probe-rejected", "probe program rejected (%s): %v", st, err)
			}
			store := NewStore(StoreSimple)
			store.Add(ast.NewAtom("p", probeName("/k"), ast.Number(5)))
			if err := engine.EvalProgram(pi, store, engine.WithCreatedFactLimit(100)); err != nil {
				return Outcome{} // stopping with an error is allowed
			}
			var got []string
			store.GetFacts(ast.NewQuery(ast.PredicateSym{Symbol: "p", Arity: 2}), func(a ast.Atom) error { got = append(got, a.String()); return nil })
			sort.Strings(got)
			if strings.Join(got, " ") != "p(/k,5)" {
				return Violation("C17/silent-partial", "expected p(/k,5) only, got %v\n%s", got, text)
			}
			return Outcome{}
		}}, Probe{
		Key:  "merge-predicate-error-swallowed",
		Desc: "mergeDelta dropped the error of a failing merge predicate: evaluation returned nil and the fact that could not be merged silently disappeared",
		Run: func(r *simrt.Run) Outcome {
			text := "Decl p(K, V) descr [fundep([K], [V]), merge([V], \"mx\")].\n" +
				"Decl mx(A, B, C) descr [mode('+', '+', '-'), deferred()].\n" +
				"mx(A, B, C) :- A < B, C = B.\nmx(A, B, C) :- B <= A, C = A.\n" +
				"q(/k, \"b\").\np(K, V) :- q(K, V).\n"
			pi, err, st := ParseAnalyze(text, nil)
			if err != nil {
				return Violation("C17/probe-rejected", "probe program rejected (%s): %v", st, err)
			}
			store := NewStore(StoreSimple)
			store.Add(ast.NewAtom("p", probeName("/k"), ast.Number(5)))
			if err := engine.EvalProgram(pi, store, engine.WithCreatedFactLimit(100)); err != nil {
				return Outcome{}
			}
			if !store.Contains(ast.NewAtom("p", probeName("/k"), ast.String("b"))) {
				return Violation("C17/silent-partial", "evaluation returned no error, yet p(/k,\"b\") - derived by p(K,V) :- q(K,V) - is not in the store (the merge predicate failed on it and the error was dropped)\n%s", text)
			}
			return Outcome{}
		}}, Probe{
		Key:  "do-transform-facts-not-counted",
		Desc: "facts created by a do-transform were never checked against the created-fact limit: limit 4, 1000 groups, 1000 facts created, no error",
		Run: func(r *simrt.Run) Outcome {
			var sb strings.Builder
			for i := 0; i < 300; i++ {
				fmt.Fprintf(&sb, "src(%d, %d).\n", i, i%7)
			}
			sb.WriteString("cnt(X, N) :- src(X, Y) |> do fn:group_by(X), let N = fn:count().\n")
			pi, err, st := ParseAnalyze(sb.String(), nil)
			if err != nil {
				return Violation("C17/probe-rejected", "probe program rejected (%s): %v", st, err)
			}
			store := NewStore(StoreSimple)
			const limit = 4
			err = engine.EvalProgram(pi, store, engine.WithCreatedFactLimit(limit))
			n := 0
			store.GetFacts(ast.NewQuery(ast.PredicateSym{Symbol: "cnt", Arity: 2}), func(ast.Atom) error { n++; return nil })
			// bound used by the check for rule-derived facts: limit + facts of one round of one rule; be generous
			if n > 4*limit+8 {
				return Violation("C17/unbounded-creation", "created-fact limit %d, one aggregating rule over 300 groups: %d facts of cnt were created (err=%v)", limit, n, err)
			}
			return Outcome{}
		}})
}

func c15ProbeComplete(text, goalText string, recorded bool, opts provenance.Options) Outcome {
	pi, err, st := ParseAnalyze(text, nil)
	if err != nil {
		return Violation("C15/probe-rejected", "probe program rejected (%s): %v", st, err)
	}
	store := factstore.NewSimpleInMemoryStore()
	rec := provenance.NewMemoryRecorder()
	if err := engine.EvalProgram(pi, store, engine.WithDerivationRecorder(rec)); err != nil {
		return Violation("C15/probe-eval", "probe program fails: %v", err)
	}
	goal, err := parse.Atom(goalText)
	if err != nil {
		return Violation("C15/probe-goal", "%v", err)
	}
	goal, err = functional.EvalAtom(goal, nil)
	if err != nil || !store.Contains(goal) {
		return Violation("C15/probe-goal", "goal %v is not in the evaluated store (%v)", goalText, err)
	}
	var proofs []*provenance.ProofNode
	mode := "Explain"
	if recorded {
		mode = "BuildFromRecording"
		proofs, err = provenance.BuildFromRecording(rec, store, goal, opts)
	} else {
		proofs, err = provenance.Explain(pi, store, goal, opts)
	}
	complete := false
	for _, p := range proofs {
		complete = complete || !p.Partial
	}
	if err != nil || !complete {
		return Violation("C15/no-complete-proof", "%s(%v): %d proofs, none complete (err=%v) although the fact is in the evaluated store of the transform-free program\n%s", mode, goal, len(proofs), err, text)
	}
	return Outcome{}
}

func probeName(n string) ast.Constant {
	c, err := ast.Name(n)
	if err != nil {
		panic(err)
	}
	return c
}

// ---------------------------------------------------------------------------
// C04, C14

// c04ProbeSafe: if analysis accepts the program, evaluation must neither
// panic nor fail, and every stored fact must be ground.
func c04ProbeSafe(r *simrt.Run, text string, temporal bool) Outcome {
	defer func() { r.OrderPolicy, r.OrderSeed = simrt.OrderAsc, 0 }()
	for pol := 0; pol < simrt.NumOrderPolicies; pol++ {
		r.OrderPolicy, r.OrderSeed = pol, uint64(pol)
		pi, err, st := ParseAnalyze(text, nil)
		if st == "parse" {
			return Violation("C04/probe-rejected", "probe program does not parse: %v\n%s", err, text)
		}
		if err != nil {
			continue // rejected: fine
		}
		store := NewStore(StoreSimple)
		var opts []engine.EvalOption
		ts := factstore.NewTemporalStore()
		if temporal {
			opts = append(opts, engine.WithTemporalStore(ts), engine.WithEvaluationTime(time.Date(2024, 3, 1, 0, 0, 0, 0, time.UTC)))
		}
		if err := engine.EvalProgram(pi, store, opts...); err != nil {
			return Violation("C04/eval-error", "analysis accepts the program, evaluation fails: %v\n%s", err, text)
		}
		var bad []string
		for _, p := range store.ListPredicates() {
			store.GetFacts(ast.NewQuery(p), func(a ast.Atom) error {
				if !a.IsGround() {
					bad = append(bad, a.String())
				}
				return nil
			})
		}
		for _, p := range ts.ListPredicates() {
			ts.GetAllFacts(ast.NewQuery(p), func(tf factstore.TemporalFact) error {
				if !tf.Atom.IsGround() {
					bad = append(bad, tf.Atom.String()+tf.Interval.String())
				}
				return nil
			})
		}
		if len(bad) > 0 {
			sort.Strings(bad)
			return Violation("C04/non-ground-fact", "analysis accepts the program, evaluation stores the non-ground fact(s) %v\n%s", bad, text)
		}
	}
	return Outcome{}
}

func init() {
	addProbes("C04", Probe{
		Key:  "wildcard-head-over-temporal-literal",
		Desc: "ReplaceWildcards did not descend into temporal literals: the body wildcard of p(_) :- q(_)@[S, E]. made the head wildcard look bound, the non-ground fact p(_) was stored",
		Run: func(r *simrt.Run) Outcome {
			for _, text := range []string{
				"q(1)@[2020-01-01, 2021-01-01].\np(_) :- q(_)@[S, E].\n",
				"q(1)@[2020-01-01, 2021-01-01].\np(_) :- q(_)@[_, _].\n",
				"q(1)@[2020-01-01, 2021-01-01].\np(2) :- q(_)@[S, E].\np2(X) :- q(X)@[S, _].\n",
			} {
				if o := c04ProbeSafe(r, text, true); o.Failed() {
					return o
				}
			}
			return Outcome{}
		}}, Probe{
		Key:  "let-variable-in-head-expression",
		Desc: "a head function expression over a variable that a let-transform defines was evaluated before the transform ran: the accepted rule failed with 'not a value: Y'",
		Run: func(r *simrt.Run) Outcome {
			if o := c04ProbeSafe(r, "q(1). q(2).\np(fn:pair(X, Y)) :- q(X) |> let Y = fn:plus(X, 1).\n", false); o.Failed() {
				return o
			}
			return evalProbeCases(r, "C04/literal-ignored-or-misread", []probeCase{{name: "let variable in a head list", preds: []string{"p"}, want: "p(1,[2, 3]) p(2,[3, 4])",
				text: "q(1). q(2).\np(X, [Y, Z]) :- q(X) |> let Y = fn:plus(X, 1), let Z = fn:plus(X, 2).\n"}})
		}}, Probe{
		Key:  "function-expression-in-body-atom-counts-as-binding",
		Desc: "a positive body atom whose argument is a function expression over X (q(fn:plus(X, 1))) counts as binding X: the rule is accepted and evaluation fails with 'not a value: X'; the repair (an atom binds only its direct variable arguments) makes the repository's TestTransformErrors case 3 fail, which pins the evaluation-time error text",
		Run: func(r *simrt.Run) Outcome {
			return c04ProbeSafe(r, "q(2). s(1). r(5).\np(X) :- q(fn:plus(X, 1)), s(X).\n", false)
		}})
	addProbes("C14", Probe{
		Key:  "box-over-two-half-unbounded-intervals",
		Desc: "Coalesce kept [_, t1] and [t0, _] (t0 <= t1) apart: the atom holds at every instant, a box operator over the coalesced store failed",
		Run: func(r *simrt.Run) Outcome {
			defer func() { r.OrderPolicy, r.OrderSeed = simrt.OrderAsc, 0 }()
			text := "Decl p(X) temporal.\nall_past(X) :- [-[30d, 0d] p(X).\nall_future(X) :- [+[0d, 30d] p(X).\n"
			day := func(d int) ast.TemporalBound {
				return ast.NewTimestampBound(time.Date(2024, 2, d, 0, 0, 0, 0, time.UTC))
			}
			for pol := 0; pol < simrt.NumOrderPolicies; pol++ {
				r.OrderPolicy, r.OrderSeed = pol, uint64(pol)
				pi, err, st := ParseAnalyze(text, nil)
				if err != nil {
					return Violation("C14/probe-rejected", "probe program rejected (%s): %v", st, err)
				}
				ts := factstore.NewTemporalStore()
				a, g := ast.NewAtom("p", probeName("/a")), ast.NewAtom("p", probeName("/g"))
				ts.Add(a, ast.NewInterval(ast.NegativeInfinity(), day(20)))
				ts.Add(a, ast.NewInterval(day(10), ast.PositiveInfinity()))
				// /g has a real gap: 2024-02-12 .. 2024-02-14 is not covered
				ts.Add(g, ast.NewInterval(ast.NegativeInfinity(), day(12)))
				ts.Add(g, ast.NewInterval(day(15), ast.PositiveInfinity()))
				for _, p := range ts.ListPredicates() {
					if err := ts.Coalesce(p); err != nil {
						return Violation("C14/probe-coalesce", "%v", err)
					}
				}
				store := NewStore(StoreSimple)
				if err := engine.EvalProgram(pi, store, engine.WithTemporalStore(ts), engine.WithEvaluationTime(time.Date(2024, 3, 1, 0, 0, 0, 0, time.UTC))); err != nil {
					return Violation("C14/eval-error", "%v\n%s", err, text)
				}
				facts, _ := DumpStore(store, nil)
				got := strings.Join(sortedKeys(facts), " ")
				if want := "all_future(/a) all_future(/g) all_past(/a)"; got != want {
					return Violation("C14/operator-or-annotation-wrong", "p(/a)@[_, 2024-02-20], p(/a)@[2024-02-10, _], p(/g)@[_, 2024-02-12], p(/g)@[2024-02-15, _], coalesced, evaluation time 2024-03-01: expected %s, got %s\n%s", want, got, text)
				}
			}
			return Outcome{}
		}}, Probe{
		Key:  "written-bound-beside-annotation-variable-ignored",
		Desc: "an annotation with one variable and one written bound (a(X)@[S, 2024-01-02]) enumerated every interval of a, whatever its end",
		Run: func(r *simrt.Run) Outcome {
			facts := "Decl a(X) temporal.\na(/x)@[2024-01-01, 2024-01-02].\na(/y)@[2024-01-01, 2024-01-09].\na(/z)@[2023-12-25, 2024-01-02].\na(/n)@[2024-01-05, 2024-01-20].\n"
			return evalProbeCases(r, "C14/operator-or-annotation-wrong", []probeCase{
				{name: "written end", temporal: true, preds: []string{"ends"}, want: "ends(/x) ends(/z)", text: facts + "ends(X) :- a(X)@[S, 2024-01-02].\n"},
				{name: "written start", temporal: true, preds: []string{"starts"}, want: "starts(/x) starts(/y)", text: facts + "starts(X) :- a(X)@[2024-01-01, E].\n"},
				{name: "two variables", temporal: true, preds: []string{"anyv"}, want: "anyv(/n) anyv(/x) anyv(/y) anyv(/z)", text: facts + "anyv(X) :- a(X)@[S, E].\n"},
			})
		}}, Probe{
		Key:  "reversed-future-window",
		Desc: "a future window written in reverse order ([+[7d, 0d]) made the box operator succeed for a fact that covers one day of the week ahead while the diamond over the same window found nothing",
		Run: func(r *simrt.Run) Outcome {
			facts := "Decl a(X) temporal.\na(/k)@[2024-03-02, 2024-03-03].\na(/w)@[2024-02-20, 2024-03-20].\n"
			return evalProbeCases(r, "C14/operator-or-annotation-wrong", []probeCase{
				{name: "box, reversed", temporal: true, preds: []string{"bx"}, want: "bx(/w)", text: facts + "bx(X) :- [+[7d, 0d] a(X).\n"},
				{name: "box, in order", temporal: true, preds: []string{"bx"}, want: "bx(/w)", text: facts + "bx(X) :- [+[0d, 7d] a(X).\n"},
				{name: "diamond, reversed", temporal: true, preds: []string{"dm"}, want: "dm(/k) dm(/w)", text: facts + "dm(X) :- <+[7d, 0d] a(X).\n"},
				{name: "diamond, in order", temporal: true, preds: []string{"dm"}, want: "dm(/k) dm(/w)", text: facts + "dm(X) :- <+[0d, 7d] a(X).\n"},
			})
		}})
}

// ---------------------------------------------------------------------------
// C10

func init() {
	addProbes("C10", Probe{
		Key:  "malformed-descriptors-and-type-widths-panic",
		Desc: "source units that parse and then made analysis or evaluation panic: mode descriptors longer than the arity or of different lengths, reflects on a 0-ary predicate, fn:opt inside fn:Struct without or with a variable argument, tuple and function types of different widths, deferred() without a mode, a merge descriptor with two targets",
		Run: func(r *simrt.Run) Outcome {
			defer func() { r.OrderPolicy, r.OrderSeed = simrt.OrderAsc, 0 }()
			for _, text := range []string{
				"Decl foo(X) descr [mode(\"+\", \"+\")]. bar(1). foo(X) :- bar(X).",
				"Decl foo(X,Y) descr [mode(\"+\",\"-\"), mode(\"+\")]. bar(1). foo(X,Y) :- bar(X), bar(Y).",
				"Decl foo() descr [reflects(/bar)]. x() :- foo().",
				"Decl foo(X) bound [fn:Struct(fn:opt())]. foo({/a: 1}).",
				"Decl foo(X) bound [fn:Struct(fn:opt(X, /string))]. foo({/a: 1}).",
				"Decl foo(X) bound [fn:Tuple(/number,/number,/number,/number)]. Decl bar(X) bound [fn:Tuple(/number,/number,/number)]. bar(X) :- foo(X).",
				"Decl foo(X) bound [fn:Fun(/number,/number,/number)]. Decl bar(X) bound [fn:Fun(/number,/number)]. bar(X) :- foo(X).",
				"Decl foo(X) descr [deferred()]. bar(1). foo(X) :- bar(X). baz(X) :- foo(X).",
				"Decl foo(X, Y, Z) descr [fundep([X],[Y]), merge([Y, Z], \"mx\")]. bar(1,2,3). bar(1,3,4). mx(A,B,C,D,E) :- bar(A,B,C), bar(D,E,A). foo(X,Y,Z) :- bar(X,Y,Z).",
				"Decl bar(X) temporal bound [/number]. bar(1)@[2024-01-01, 2024-01-05]. cnt(X, N) :- bar(X)@[S, E] |> do fn:group_by(X), let N = fn:count().",
			} {
				for pol := 0; pol < simrt.NumOrderPolicies; pol++ {
					r.OrderPolicy, r.OrderSeed = pol, uint64(pol)
					panicked, msg := Guard(func() { c10Source([]byte(text), strings.NewReader(text)) })
					if panicked {
						return Violation("C10/panic", "panic: %s\ninput: %s", firstLine(msg), text)
					}
				}
			}
			return Outcome{}
		}})
}

// ---------------------------------------------------------------------------
// C01

func init() {
	addProbes("C01", Probe{
		Key:  "deferred-predicate-call-shares-variable-scope",
		Desc: "a clause of a deferred (top-down) predicate was evaluated in the caller's variable scope: a recursive call, or a caller that uses the same variable names, made the clause fail to unify and answers were lost without an error",
		Run: func(r *simrt.Run) Outcome {
			return evalProbeCases(r, "C01/missing-fact", []probeCase{
				{name: "recursive deferred predicate", preds: []string{"q"}, want: "q(0,0) q(2,0)",
					text: "Decl down(X, Y) descr [mode('+', '-'), deferred()].\ndown(X, Y) :- X = 0, Y = 0.\ndown(X, Y) :- X != 0, Z = fn:minus(X, 1), down(Z, Y).\ns(0). s(2).\nq(X, Y) :- s(X), down(X, Y).\n"},
				{name: "caller and callee share a variable name", preds: []string{"q"}, want: "q(1,3) q(2,4)",
					text: "Decl up(A, Y) descr [mode('+', '-'), deferred()].\nup(A, Y) :- Y = fn:plus(A, 2).\ns(1). s(2).\nq(Y, A) :- s(Y), up(Y, A).\n"},
			})
		}}, Probe{
		Key:  "merge-key-not-first-column",
		Desc: "mergeDelta looked up the existing facts of a merge predicate by the leading columns instead of the columns its functional dependency names: with the key in the second column a fact of another key was replaced",
		Run: func(r *simrt.Run) Outcome {
			return evalProbeCases(r, "C01/missing-fact", []probeCase{
				{name: "key in the second column", preds: []string{"best"}, want: "best(3,/c) best(5,/a) best(5,/b)",
					text: "Decl best(S, L) descr [fundep([L], [S]), merge([S], \"minv\")].\n" + latticeMinDecl +
						"cand(1, 5, /b). cand(2, 5, /a). cand(1, 5, /c). cand(2, 3, /c).\nstep(1). step(2).\nat(1).\nat(N) :- at(M), step(M), N = fn:plus(M, 1).\nbest(S, L) :- at(N), cand(N, S, L).\n"},
			})
		}})
}
