//go:build verifsim

package harness

import (
	"fmt"
	"io"
	"os"
	"path/filepath"
	"regexp"
	"sort"
	"strings"

	"codeberg.org/TauCeti/mangle-go/ast"
	"codeberg.org/TauCeti/mangle-go/interpreter"
	"codeberg.org/TauCeti/mangle-go/zzsim/simrt"
)

func init() {
	Register(&Prop{ID: "C16", Run: runC16, StepCap: 80_000_000})
}

type c16Cmd struct {
	Kind string // define | load | pop
	Arg  string
}

func (c c16Cmd) String() string {
	switch c.Kind {
	case "define":
		return c.Arg
	case "load":
		return "::load " + c.Arg
	}
	return "::pop"
}

// live fragments according to the documented command semantics
type c16Model struct {
	loads   []string
	defines []string
}

func (m c16Model) clone() c16Model {
	return c16Model{append([]string{}, m.loads...), append([]string{}, m.defines...)}
}

// replDefine executes a definition the way Interpreter.Loop does: on error
// the interactive buffer is put back.
func replDefine(it *interpreter.Interpreter, text string) error {
	if c16Direct {
		// a program that embeds the interpreter calls Define itself; a rejected
		// definition has to leave the buffer as it was without the loop's help
		return it.Define(text)
	}
	saved := it.SimBuffer()
	if err := it.Define(text); err != nil {
		it.SimSetBuffer(saved)
		return err
	}
	return nil
}

// c16Direct: definitions go to Interpreter.Define directly instead of the way
// Interpreter.Loop issues them (drawn per run).
var c16Direct bool

func c16Exec(it *interpreter.Interpreter, c c16Cmd) (err error, panicMsg string) {
	panicked, msg := Guard(func() {
		switch c.Kind {
		case "define":
			err = replDefine(it, c.Arg)
		case "load":
			err = it.Load(c.Arg)
		case "pop":
			it.Pop()
		}
	})
	if panicked {
		return nil, msg
	}
	return err, ""
}

// c16Fresh builds a fresh interpreter and replays the live fragments.
func c16Fresh(root string, m c16Model) (*interpreter.Interpreter, error) {
	it := interpreter.New(io.Discard, root, nil)
	for _, l := range m.loads {
		if err, p := c16Exec(it, c16Cmd{"load", l}); err != nil || p != "" {
			return nil, fmt.Errorf("replaying ::load %s on a fresh interpreter: %v %s", l, err, p)
		}
	}
	for _, d := range m.defines {
		if err, p := c16Exec(it, c16Cmd{"define", d}); err != nil || p != "" {
			return nil, fmt.Errorf("replaying %q on a fresh interpreter: %v %s", d, err, p)
		}
	}
	return it, nil
}

var c16Preds = []string{"fa", "ga", "ha", "ta", "fb", "gb", "hb", "tb", "fc", "gc", "hc", "tc", "i0", "i1", "i2", "i3", "i4", "d0", "nope", "bad", "n0", "dz", "zd", "ze", "tz", "inv.item", "inv.big", "item", "cfg.port", "port", "nz", "nzd", "up", "uq", "ub", "em"}

// c16Observe renders what queries show: per predicate name either "unknown" or the sorted result set.
func c16Observe(it *interpreter.Interpreter) (map[string]string, string) {
	out := map[string]string{}
	var pm string
	panicked, msg := Guard(func() {
		for _, name := range c16Preds {
			q, err := it.ParseQuery(name)
			if err != nil {
				out[name] = "unknown"
				if serr := it.Show(name); serr == nil {
					out[name] = "unknown-but-shown"
				}
				continue
			}
			res, err := it.Query(q)
			if err != nil {
				out[name] = "error:" + err.Error()
				continue
			}
			var ss []string
			for _, t := range res {
				ss = append(ss, t.String())
			}
			sort.Strings(ss)
			// duplicates matter: a fact must be answered once
			out[name] = fmt.Sprintf("%d/%s: ", q.Predicate.Arity, name) + strings.Join(ss, " ")
			if serr := it.Show(name); serr != nil {
				out[name] += " [show fails]"
			}
		}
		// a pattern query as well
		for _, qs := range []string{"fa(/k1)", "ga(X)", "i1(/k2)"} {
			a, err := it.ParseQuery(qs)
			if err != nil {
				out["?"+qs] = "parse-error"
				continue
			}
			res, _ := it.Query(a)
			var ss []string
			for _, t := range res {
				ss = append(ss, t.String())
			}
			sort.Strings(ss)
			out["?"+qs] = strings.Join(ss, " ")
		}
	})
	if panicked {
		pm = msg
	}
	return out, pm
}

func runC16(r *simrt.Run, tier Tier) Outcome {
	r.OrderPolicy = r.Choose(simrt.NumOrderPolicies, "c16.order")
	r.OrderSeed = uint64(r.Choose(1<<16, "c16.orderseed"))
	root, err := os.MkdirTemp("", "mgsim-c16-")
	if err != nil {
		return Outcome{Discard: "tempdir"}
	}
	defer os.RemoveAll(root)
	c16Root = root
	c16Direct = r.Bool("c16.direct-define")
	// program files (content fixed per run)
	files := map[string]string{}
	for _, x := range []string{"a", "b", "c"} {
		var sb strings.Builder
		n := 1 + r.Choose(3, "c16.file.nfacts")
		for i := 0; i < n; i++ {
			fmt.Fprintf(&sb, "f%s(/k%d).\n", x, 1+r.Choose(3, "c16.file.fact"))
		}
		fmt.Fprintf(&sb, "g%s(Y) :- f%s(Y).\n", x, x)
		if r.Bool("c16.file.dep") {
			w := []string{"a", "b", "c"}[r.Choose(3, "c16.file.depon")]
			if w != x {
				fmt.Fprintf(&sb, "h%s(Y) :- g%s(Y), !f%s(Y).\n", x, w, x)
			}
		}
		if r.OneIn(3, "c16.file.temporal") {
			fmt.Fprintf(&sb, "t%s(/k1)@[2024-01-0%d, 2024-02-01].\n", x, 1+r.Choose(5, "c16.file.tday"))
		}
		if r.OneIn(4, "c16.file.decl") {
			fmt.Fprintf(&sb, "Decl h%s(A).\n", x)
			if !strings.Contains(sb.String(), "h"+x+"(Y)") {
				fmt.Fprintf(&sb, "h%s(/k1).\n", x)
			}
		}
		files[x+".mg"] = sb.String()
	}
	files["decls.mg"] = "Decl zd(A).\nDecl ze(A, B).\n"
	files["temporal.mg"] = "tz(/k1)@[2024-01-01, 2024-01-09].\ntz(/k2)@[2024-01-03].\n"
	files["syntax.mg"] = "fa(/k1).\nga(Y :- fa(Y).\n"
	files["unsafe.mg"] = "fz(/k1).\nbad(Y) :- fz(Z).\n"
	// a source that lives in a package: its predicates are installed under qualified names
	files["pk.mg"] = "Package inv!\nitem(/k1).\nitem(/k2).\nbig(X) :- item(X).\n"
	// files that pass analysis and fail when they are evaluated
	files["evalfail.mg"] = "nz(0).\nnz(3).\nnzd(X) :- nz(Y), X = fn:div(6, Y).\n"
	files["unstrat.mg"] = "ub(/k1).\nup(X) :- ub(X), !uq(X).\nuq(X) :- up(X).\n"
	// a file that may be loaded any number of times
	files["empty.mg"] = "# nothing here\n"
	files["bounds.mg"] = "Decl fy(A) bound [/number].\nfy(/k1).\n"
	for name, text := range files {
		if err := os.WriteFile(filepath.Join(root, name), []byte(text), 0o644); err != nil {
			return Outcome{Discard: "tempfile"}
		}
	}
	defines := []string{
		"i0(/k1).", "i0(/k2).", "i1(Y) :- fa(Y).", "i1(Y) :- i0(Y).", "i2(Y) :- i0(Y), !gb(Y).", "i3(Y) :- ga(Y), gb(Y).",
		"i4(/k1)@[2024-01-01, 2024-01-03].", "Decl d0(A).", "d0(/k3).",
		"n0(0).", "n0(2).",
		// an explicit declaration for a predicate that a loaded file defines without one
		"Package cfg! port(8080).",
		"Decl fa(A).", "Decl gb(A) bound [/name].", "Decl fa(A). i3(Y) :- nope(Y).", "Decl fc(A). fc(/k1, /k2).",
		// the same, spelled with the variable names of the implicit declaration that
		// the explicit one replaces (rule head variables, X0 for a predicate known from facts)
		"Decl ga(Y).", "Decl gb(Y) bound [/name].", "Decl fa(X0).", "Decl i1(Y) bound [/name].", "Decl gc(Y). i5(Y) :- gc(Y).",
		// rejected at evaluation time when n0(0) is live (division by zero)
		"dz(X) :- n0(Y), X = fn:div(6, Y).",
		// rejected ones
		"i0(/x", "i3(Y) :- nope(Y).", "fa(/k1, /k2).", "ga(/k9).", "bad(Y) :- i0(Z).", "i1(Y) :- fa(Y), Y < /k1.",
	}
	loads := []string{"a.mg", "b.mg", "c.mg", "decls.mg", "temporal.mg", "decls.mg", "temporal.mg", "a.mg,b.mg", "b.mg,c.mg", "pk.mg", "pk.mg", "evalfail.mg", "unstrat.mg", "empty.mg", "empty.mg", "empty.mg", "missing.mg", "syntax.mg", "unsafe.mg", "bounds.mg", "a.mg,missing.mg"}

	it := interpreter.New(io.Discard, root, nil)
	model := c16Model{}
	var trace []string
	nCmds := 1 + r.Choose(14, "c16.ncmds")
	if tier == Thorough {
		nCmds = 1 + r.Choose(25, "c16.ncmds")
	}
	ctx := func() string {
		var sb strings.Builder
		sb.WriteString("commands:\n  " + strings.Join(trace, "\n  ") + "\nfiles:\n")
		var names []string
		for n := range files {
			names = append(names, n)
		}
		sort.Strings(names)
		for _, n := range names {
			if strings.Contains(strings.Join(trace, " "), n) {
				sb.WriteString("  --- " + n + "\n    " + strings.ReplaceAll(strings.TrimSpace(files[n]), "\n", "\n    ") + "\n")
			}
		}
		fmt.Fprintf(&sb, "live fragments per the documented semantics: loads=%v interactive=%q", model.loads, model.defines)
		return sb.String()
	}
	okCmds, failedCmds, pops := 0, 0, 0
	for k := 0; k < nCmds; k++ {
		r.Tape.Mark()
		var c c16Cmd
		switch x := r.Choose(10, "c16.cmd"); {
		case x < 5:
			c = c16Cmd{"define", defines[r.Choose(len(defines), "c16.define")]}
		case x < 8:
			c = c16Cmd{"load", loads[r.Choose(len(loads), "c16.load")]}
		default:
			c = c16Cmd{"pop", ""}
		}
		// the same command on a fresh interpreter holding only the live fragments
		ref, rerr := c16Fresh(root, model)
		if rerr != nil {
			return Violation("C16/replay-fails", "%v\n%s", rerr, ctx())
		}
		refErr, refPanic := c16Exec(ref, c)
		err, pm := c16Exec(it, c)
		trace = append(trace, fmt.Sprintf("%s    -> %v", c, errStr(err)))
		if pm != "" {
			return Violation("C16/panic", "command %q panics: %s\n%s", c, pm, ctx())
		}
		if refPanic != "" {
			return Violation("C16/panic", "command %q panics on a fresh interpreter holding the live fragments: %s\n%s", c, refPanic, ctx())
		}
		if (err == nil) != (refErr == nil) {
			return Violation("C16/accept-differs", "command %q: the interpreter answers %v, a fresh interpreter holding only the live fragments answers %v\n%s", c, errStr(err), errStr(refErr), ctx())
		}
		// update the model by the documented semantics
		switch c.Kind {
		case "define":
			if err == nil {
				model.defines = append(model.defines, c.Arg)
				okCmds++
			} else {
				failedCmds++
				r.Fault("rejected-definition")
			}
		case "load":
			if err == nil {
				// a successful ::load discards the interactive definitions; a
				// rejected one is a rejected command and changes nothing
				model.defines = nil
				model.loads = append(model.loads, c.Arg)
				okCmds++
			} else {
				failedCmds++
				r.Fault("failed-load")
			}
		case "pop":
			pops++
			if len(model.defines) > 0 {
				model.defines = nil
			} else if len(model.loads) > 0 {
				model.loads = model.loads[:len(model.loads)-1]
			}
		}
		want, werr := c16Fresh(root, model)
		if werr != nil {
			return Violation("C16/replay-fails", "%v\n%s", werr, ctx())
		}
		gotObs, p1 := c16Observe(it)
		wantObs, p2 := c16Observe(want)
		if p1 != "" || p2 != "" {
			return Violation("C16/panic", "query panics: %s %s\n%s", p1, p2, ctx())
		}
		var diffs []string
		for _, name := range sortedStringKeys(wantObs, gotObs) {
			if gotObs[name] != wantObs[name] {
				diffs = append(diffs, fmt.Sprintf("%s: interpreter %q, fresh replay %q", name, gotObs[name], wantObs[name]))
			}
		}
		if len(diffs) > 0 {
			cls := "C16/state-differs"
			if err != nil {
				cls = "C16/rejected-command-changed-state"
			} else if c.Kind == "pop" {
				cls = "C16/pop-not-exact"
			}
			return Violation(cls, "after %q the interpreter does not answer like a fresh interpreter that loaded only the live fragments\n  %s\n%s", c, strings.Join(diffs, "\n  "), ctx())
		}
	}
	r.Logf("%s", strings.Join(trace, "; "))
	return Outcome{Nontrivial: okCmds >= 2 && (pops+failedCmds) >= 1, Sample: map[string]any{"commands": trace}}
}

// c16Root is the per-run temp directory; it is replaced in messages so that
// traces (and their hashes) do not depend on its random name.
var c16Root string

func errStr(err error) string {
	if err == nil {
		return "ok"
	}
	s := "error: " + firstLine(err.Error())
	if c16Root != "" {
		s = strings.ReplaceAll(s, c16Root, "<root>")
	}
	// some library messages print a struct that holds a pointer
	return hexPtr.ReplaceAllString(s, "0x?")
}

var hexPtr = regexp.MustCompile(`0x[0-9a-f]{6,}`)

func sortedStringKeys(ms ...map[string]string) []string {
	seen := map[string]bool{}
	var out []string
	for _, m := range ms {
		for k := range m {
			if !seen[k] {
				seen[k] = true
				out = append(out, k)
			}
		}
	}
	sort.Strings(out)
	return out
}

var _ = ast.Atom{}
