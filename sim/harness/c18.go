//go:build verifsim

package harness

import (
	"fmt"
	"math/bits"
	"sort"
	"strings"

	"github.com/anishathalye/porcupine"

	"codeberg.org/TauCeti/mangle-go/ast"
	"codeberg.org/TauCeti/mangle-go/factstore"
	"codeberg.org/TauCeti/mangle-go/zzsim/simrt"
)

func init() {
	Register(&Prop{ID: "C18", Run: runC18, StepCap: 20_000_000})
}

func runC18(r *simrt.Run, tier Tier) Outcome {
	// 3 of 4 runs exercise the store (part A), 1 of 4 parallel evaluations (part B)
	if r.Choose(4, "c18.part") == 3 {
		return runC18B(r, tier)
	}
	return runC18A(r, tier)
}

// ---------------------------------------------------------------------------
// Part A: linearizability of ConcurrentFactStore

type c18Op struct {
	Kind  int // 0 add 1 remove 2 contains 3 getfacts 4 merge 5 count 6 list
	Atom  int // universe index (add/remove/contains) or pattern id
	Const bool
	Sub   int // kind 7 (operation on the merge source): 0 write that changes nothing, 1 contains
}

type c18In struct {
	Kind int
	Atom int
	Mask uint16 // getfacts: atoms matching the pattern; merge: atoms merged
}

type c18Out struct {
	B    bool
	Mask uint16
	N    int
}

var c18OpNames = []string{"Add", "Remove", "Contains", "GetFacts", "Merge", "Count", "ListPredicates"}

// lockCheckStore wraps the base store: records, for every base operation,
// whether the calling task holds the store's lock in the required mode, and
// turns base-store entry/exit and scan callbacks into scheduling points.
type lockCheckStore struct {
	inner factstore.FactStoreWithRemove
	r     *simrt.Run
	bad   *[]string
	// cand is the lockset of this base store (Eraser): the locks that every
	// access so far held in a sufficient mode. An empty set after two
	// accesses means no single lock protects the store.
	cand *lockCand
	name string
}

type lockCand struct {
	init  bool
	locks []string
}

func (l lockCheckStore) check(op string, write bool) {
	s := l.r.Sched
	if s == nil {
		return
	}
	held := s.HeldLocks()
	ok := false
	for _, h := range held {
		if strings.HasSuffix(h, "#w") || (!write && strings.HasSuffix(h, "#r")) {
			ok = true
		}
	}
	if !ok && len(*l.bad) < 4 {
		mode := "read"
		if write {
			mode = "write"
		}
		*l.bad = append(*l.bad, fmt.Sprintf("base.%s entered without the store's %s lock (held: %v)", op, mode, held))
	}
	if l.cand != nil {
		var adequate []string
		for _, h := range held {
			if strings.HasSuffix(h, "#w") {
				adequate = append(adequate, strings.TrimSuffix(h, "#w"))
			} else if !write && strings.HasSuffix(h, "#r") {
				adequate = append(adequate, strings.TrimSuffix(h, "#r"))
			}
		}
		if !l.cand.init {
			l.cand.init, l.cand.locks = true, adequate
		} else {
			var keep []string
			for _, c := range l.cand.locks {
				for _, a := range adequate {
					if a == c {
						keep = append(keep, c)
						break
					}
				}
			}
			if len(keep) == 0 && len(l.cand.locks) > 0 && len(*l.bad) < 4 {
				*l.bad = append(*l.bad, fmt.Sprintf("%s: base.%s entered holding %v, earlier accesses were protected by %v: no common lock protects this store", l.name, op, held, l.cand.locks))
			}
			l.cand.locks = keep
		}
	}
	s.SyncPoint("base." + op)
}

func (l lockCheckStore) Add(a ast.Atom) bool {
	l.check("Add", true)
	return l.inner.Add(a)
}
func (l lockCheckStore) Remove(a ast.Atom) bool {
	l.check("Remove", true)
	return l.inner.Remove(a)
}
func (l lockCheckStore) Merge(o factstore.ReadOnlyFactStore) {
	l.check("Merge", true)
	l.inner.Merge(o)
}
func (l lockCheckStore) Contains(a ast.Atom) bool {
	l.check("Contains", false)
	return l.inner.Contains(a)
}
func (l lockCheckStore) GetFacts(a ast.Atom, fn func(ast.Atom) error) error {
	l.check("GetFacts", false)
	return l.inner.GetFacts(a, func(x ast.Atom) error {
		if s := l.r.Sched; s != nil {
			s.SyncPoint("scan-callback")
		}
		return fn(x)
	})
}
func (l lockCheckStore) ListPredicates() []ast.PredicateSym {
	l.check("ListPredicates", false)
	return l.inner.ListPredicates()
}
func (l lockCheckStore) EstimateFactCount() int {
	l.check("EstimateFactCount", false)
	return l.inner.EstimateFactCount()
}

func runC18A(r *simrt.Run, tier Tier) Outcome {
	r.OrderPolicy = r.Choose(simrt.NumOrderPolicies, "c18.order")
	r.OrderSeed = uint64(r.Choose(1<<16, "c18.orderseed"))
	// universe: up to 8 atoms over p/1 and q/2
	vals := []Val{NameV("/a"), NameV("/b"), IntV(1), IntV(2)}
	var all []Fact
	for _, a := range vals {
		all = append(all, Fact{Pred: "p", Args: []Val{a}})
	}
	for _, a := range vals {
		for _, b := range vals {
			all = append(all, Fact{Pred: "q", Args: []Val{a, b}})
		}
	}
	var uni []Fact
	nU := 3 + r.Choose(6, "c18.nuni")
	for i := 0; i < nU; i++ {
		j := r.Choose(len(all), "c18.u.pick")
		uni = append(uni, all[j])
		all = append(all[:j], all[j+1:]...)
	}
	if len(uni) < 2 {
		return Outcome{Discard: "tiny-universe"}
	}
	atoms := make([]ast.Atom, len(uni))
	idx := map[string]int{}
	for i, f := range uni {
		atoms[i] = ToAtom(f)
		idx[f.Key()] = i
	}
	kind := r.Choose(4, "c18.base")
	var bad []string
	base := lockCheckStore{inner: newRemovable(kind), r: r, bad: &bad, cand: &lockCand{}, name: "the store"}
	store := factstore.NewConcurrentFactStore(base)
	// initial contents
	var initMask uint16
	for i := range uni {
		if r.OneIn(3, "c18.init") {
			base.inner.Add(atoms[i])
			initMask |= 1 << i
		}
	}
	// fixed other store for Merge
	other := factstore.NewSimpleInMemoryStore()
	var mergeMask uint16
	for i := range uni {
		if r.OneIn(3, "c18.mergeset") {
			other.Add(atoms[i])
			mergeMask |= 1 << i
		}
	}
	// In half of the runs the merge source is itself a ConcurrentFactStore
	// that other tasks use while it is being merged. Those tasks only issue
	// operations that leave its contents as they are (Add of a member, Remove
	// of a non-member, Contains), so that Merge(source) keeps one meaning for
	// the model of the destination; what is checked on the source is that every
	// access to its base happens under its own lock, and the results.
	// a store merged into itself is handed over as a value or as a pointer
	selfByPointer := r.Bool("c18.selfmerge.pointer")
	concSrc := r.Bool("c18.concsrc")
	var mergeSrc factstore.ReadOnlyFactStore = other
	var srcStore factstore.ConcurrentFactStore
	if concSrc {
		srcStore = factstore.NewConcurrentFactStore(lockCheckStore{inner: other, r: r, bad: &bad, cand: &lockCand{}, name: "the merge source"})
		mergeSrc = srcStore
	}
	// patterns for GetFacts: all p, all q, p(const), q(const, _), q(_, const)
	type pat struct {
		q    ast.Atom
		mask uint16
		desc string
	}
	var pats []pat
	mk := func(q ast.Atom, match func(Fact) bool, desc string) {
		var m uint16
		for i, f := range uni {
			if match(f) {
				m |= 1 << i
			}
		}
		pats = append(pats, pat{q, m, desc})
	}
	pp := ast.PredicateSym{Symbol: "p", Arity: 1}
	qq := ast.PredicateSym{Symbol: "q", Arity: 2}
	mk(ast.NewQuery(pp), func(f Fact) bool { return f.Pred == "p" }, "p(X)")
	mk(ast.NewQuery(qq), func(f Fact) bool { return f.Pred == "q" }, "q(X,Y)")
	for _, v := range vals[:2] {
		v := v
		mk(ast.Atom{Predicate: qq, Args: []ast.BaseTerm{ToConst(v), ast.Variable{Symbol: "Y"}}}, func(f Fact) bool { return f.Pred == "q" && f.Args[0].Key() == v.Key() }, "q("+v.Key()+",Y)")
		mk(ast.Atom{Predicate: qq, Args: []ast.BaseTerm{ast.Variable{Symbol: "X"}, ToConst(v)}}, func(f Fact) bool { return f.Pred == "q" && f.Args[1].Key() == v.Key() }, "q(X,"+v.Key()+")")
	}
	var predMaskP, predMaskQ uint16
	for i, f := range uni {
		if f.Pred == "p" {
			predMaskP |= 1 << i
		} else {
			predMaskQ |= 1 << i
		}
	}

	nTasks := 2 + r.Choose(3, "c18.ntasks")
	ops := make([][]c18Op, nTasks)
	for t := range ops {
		n := 2 + r.Choose(5, "c18.nops")
		for j := 0; j < n; j++ {
			r.Tape.Mark()
			k := []int{0, 0, 0, 1, 1, 2, 2, 3, 3, 4, 5, 6}[r.Choose(12, "c18.op")]
			if concSrc && r.OneIn(4, "c18.op.onsrc") {
				k = 7
			}
			op := c18Op{Kind: k}
			switch k {
			case 0, 1, 2:
				op.Atom = r.Choose(len(uni), "c18.op.atom")
			case 3:
				op.Atom = r.Choose(len(pats), "c18.op.pat")
			case 7:
				op.Atom = r.Choose(len(uni), "c18.op.srcatom")
				op.Sub = r.Choose(2, "c18.op.srcsub")
			case 4:
				// now and then the store is merged into itself (a set union with itself: no change)
				if r.OneIn(4, "c18.op.selfmerge") {
					op.Atom = 1
				}
			}
			ops[t] = append(ops[t], op)
		}
	}
	var history []porcupine.Operation
	var opDesc []string
	sched := r.NewSched()
	// preemption points at yield counts (function entries + statements of store code)
	nPre := r.Choose(4, "c18.npreempt")
	var pre []uint64
	for i := 0; i < nPre; i++ {
		pre = append(pre, uint64(1+r.Choose(400, "c18.preempt.at")))
	}
	sched.SetPreemptions(pre)
	names := make([]string, nTasks)
	fns := make([]func(), nTasks)
	for t := 0; t < nTasks; t++ {
		t := t
		names[t] = fmt.Sprintf("T%d", t)
		fns[t] = func() {
			for _, op := range ops[t] {
				if op.Kind == 7 {
					// an operation on the merge source that does not change it
					member := mergeMask&(1<<op.Atom) != 0
					var got bool
					var what string
					switch {
					case op.Sub == 1:
						got, what = srcStore.Contains(atoms[op.Atom]) != member, "Contains"
					case member:
						got, what = srcStore.Add(atoms[op.Atom]), "Add(member)"
					default:
						got, what = srcStore.Remove(atoms[op.Atom]), "Remove(non-member)"
					}
					if got && len(bad) < 4 {
						bad = append(bad, fmt.Sprintf("merge source: %s of %s answered wrongly (contents %s)", what, uni[op.Atom].Key(), maskStr(mergeMask, uni)))
					}
					opDesc = append(opDesc, fmt.Sprintf("T%d source.%s(%s)", t, what, uni[op.Atom].Key()))
					r.Logf("%s", opDesc[len(opDesc)-1])
					continue
				}
				in := c18In{Kind: op.Kind, Atom: op.Atom}
				var out c18Out
				call := int64(r.Seq())
				switch op.Kind {
				case 0:
					out.B = store.Add(atoms[op.Atom])
				case 1:
					out.B = store.Remove(atoms[op.Atom])
				case 2:
					out.B = store.Contains(atoms[op.Atom])
				case 3:
					in.Mask = pats[op.Atom].mask
					store.GetFacts(pats[op.Atom].q, func(a ast.Atom) error {
						f, err := FromAtom(a)
						if err == nil {
							if i, ok := idx[f.Key()]; ok {
								if out.Mask&(1<<i) != 0 {
									out.N = -1 // duplicate
								}
								out.Mask |= 1 << i
							} else {
								out.N = -2 // foreign atom
							}
						}
						return nil
					})
				case 4:
					if op.Atom == 1 {
						in.Mask = 0
						if selfByPointer {
							store.Merge(&store)
						} else {
							store.Merge(store)
						}
					} else {
						in.Mask = mergeMask
						store.Merge(mergeSrc)
					}
				case 5:
					out.N = store.EstimateFactCount()
				case 6:
					for _, p := range store.ListPredicates() {
						if p == pp {
							out.Mask |= 1
						}
						if p == qq {
							out.Mask |= 2
						}
					}
				}
				ret := int64(r.Seq())
				history = append(history, porcupine.Operation{ClientId: t, Input: in, Call: call, Output: out, Return: ret})
				d := fmt.Sprintf("T%d %s", t, c18OpNames[op.Kind])
				switch op.Kind {
				case 0, 1, 2:
					d += fmt.Sprintf("(%s) = %v", uni[op.Atom].Key(), out.B)
				case 3:
					d += fmt.Sprintf("(%s) = %s", pats[op.Atom].desc, maskStr(out.Mask, uni))
				case 4:
					if op.Atom == 1 {
						d += "(the store itself)"
					} else {
						d += fmt.Sprintf("(%s)", maskStr(mergeMask, uni))
					}
				case 5:
					d += fmt.Sprintf("() = %d", out.N)
				case 6:
					d += fmt.Sprintf("() = %02b", out.Mask)
				}
				opDesc = append(opDesc, fmt.Sprintf("[%d,%d] %s", call, ret, d))
				r.Logf("%s", opDesc[len(opDesc)-1])
			}
		}
	}
	sched.RunTasks(names, fns)
	hist := strings.Join(opDesc, "\n  ")
	ctx := fmt.Sprintf("base=%s initial=%s merge-set=%s concurrent-merge-source=%v tasks=%d\nhistory (call,return stamps are global event numbers):\n  %s", removableNames[kind], maskStr(initMask, uni), maskStr(mergeMask, uni), concSrc, nTasks, hist)
	for _, t := range sched.Tasks {
		if t.Panic != nil {
			return Violation("C18/panic", "task %s panicked: %v\n%s\n%s", t.Name, t.Panic, trimStack(t.PanicStack), ctx)
		}
	}
	if sched.Deadlock {
		return Violation("C18/deadlock", "deadlock: %s\n%s", sched.DeadlockInfo, ctx)
	}
	if len(bad) > 0 {
		return Violation("C18/lockset", "%s\n%s", strings.Join(bad, "; "), ctx)
	}
	// linearizability against the set model
	model := porcupine.Model{
		Init: func() interface{} { return initMask },
		Step: func(st, input, output interface{}) (bool, interface{}) {
			s := st.(uint16)
			in := input.(c18In)
			out := output.(c18Out)
			switch in.Kind {
			case 0:
				bit := uint16(1) << in.Atom
				return out.B == (s&bit == 0), s | bit
			case 1:
				bit := uint16(1) << in.Atom
				return out.B == (s&bit != 0), s &^ bit
			case 2:
				bit := uint16(1) << in.Atom
				return out.B == (s&bit != 0), s
			case 3:
				return out.N == 0 && out.Mask == s&in.Mask, s
			case 4:
				return true, s | in.Mask
			case 5:
				return out.N == bits.OnesCount16(s), s
			case 6:
				// must list every predicate that currently has a fact
				okP := s&predMaskP == 0 || out.Mask&1 != 0
				okQ := s&predMaskQ == 0 || out.Mask&2 != 0
				return okP && okQ, s
			}
			return false, s
		},
	}
	res := porcupine.CheckOperations(model, history)
	if !res {
		return Violation("C18/not-linearizable", "no sequential order of the operations explains the results\n%s", ctx)
	}
	// overlap degree: number of operation pairs that were concurrent
	overlaps := 0
	for i := range history {
		for j := i + 1; j < len(history); j++ {
			if history[i].ClientId != history[j].ClientId && history[i].Call < history[j].Return && history[j].Call < history[i].Return {
				overlaps++
			}
		}
	}
	if overlaps > 0 {
		r.Probe("overlapping-operation-pairs")
	}
	if concSrc {
		r.Probe("merge-source-is-a-concurrent-store-in-use")
	}
	return Outcome{Nontrivial: overlaps >= 1 && len(history) >= 4, DistinctKey: sched.InterleavingHash() | 1,
		Sample: map[string]any{"part": "A", "base": removableNames[kind], "history": opDesc, "switches": sched.Switches}}
}

func maskStr(m uint16, uni []Fact) string {
	var parts []string
	for i, f := range uni {
		if m&(1<<i) != 0 {
			parts = append(parts, f.Key())
		}
	}
	sort.Strings(parts)
	return "{" + strings.Join(parts, ", ") + "}"
}

// ---------------------------------------------------------------------------
// Part B: parse / analyse / evaluate unrelated programs in parallel tasks

type c18bResult struct {
	Stage string
	Err   string
	Facts []string
}

func (a c18bResult) equal(b c18bResult) bool {
	return a.Stage == b.Stage && a.Err == b.Err && strings.Join(a.Facts, "|") == strings.Join(b.Facts, "|")
}

func c18bPipeline(src string, storeKind int) c18bResult {
	pi, err, stage := ParseAnalyze(src, nil)
	if err != nil {
		return c18bResult{Stage: stage, Err: err.Error()}
	}
	store := NewStore(storeKind)
	if err := evalProgramPlain(pi, store); err != nil {
		return c18bResult{Stage: "eval", Err: err.Error()}
	}
	facts, err := DumpStore(store, nil)
	if err != nil {
		return c18bResult{Stage: "dump", Err: err.Error()}
	}
	return c18bResult{Facts: sortedKeys(facts)}
}

func runC18B(r *simrt.Run, tier Tier) Outcome {
	// counter-independent order policies only: a task's map orders must not
	// depend on how many map ranges other tasks performed
	r.OrderPolicy = []int{simrt.OrderAsc, simrt.OrderDesc}[r.Choose(2, "c18b.order")]
	nTasks := 2 + r.Choose(3, "c18b.ntasks")
	type job struct {
		src   string
		store int
		tz    bool
	}
	jobs := make([]job, nTasks)
	tzTask := -1
	if r.OneIn(3, "c18b.tz") {
		tzTask = r.Choose(nTasks, "c18b.tztask")
	}
	for t := range jobs {
		r.Tape.Mark()
		if t == tzTask {
			jobs[t].tz = true
			continue
		}
		o := DrawOpts(r)
		o.MaxIDB, o.MaxFacts = 1+r.Choose(3, "c18b.maxidb"), 2+r.Choose(5, "c18b.maxfacts")
		prog := GenProgram(r, o)
		src := prog.Source(true)
		if r.OneIn(4, "c18b.temporalfact") {
			src += "tv(/a)@[2024-01-01, 2024-02-01].\n"
		}
		switch r.Choose(6, "c18b.corrupt") {
		case 0: // failing parse: truncate
			if len(src) > 4 {
				src = src[:1+r.Choose(len(src)-1, "c18b.trunc")]
			}
		case 1: // failing parse: stray token
			src += "p0(X :- .\n"
		}
		jobs[t].src = src
		jobs[t].store = r.Choose(NumStoreKinds, "c18b.store")
	}
	tzWork := func() c18bResult {
		for i := 0; i < 3; i++ {
			if err := ast.SetTimezone("UTC"); err != nil {
				return c18bResult{Stage: "tz", Err: err.Error()}
			}
		}
		return c18bResult{Facts: []string{ast.GetDefaultTimezone().String()}}
	}
	// solo runs
	solo := make([]c18bResult, nTasks)
	steps0 := r.Steps
	for t, j := range jobs {
		var res c18bResult
		panicked, msg := Guard(func() {
			if j.tz {
				res = tzWork()
			} else {
				res = c18bPipeline(j.src, j.store)
			}
		})
		if panicked {
			// a panic here is a C10/C04 matter; keep C18 about interference
			return Outcome{Discard: "solo-panic:" + firstLine(msg)}
		}
		solo[t] = res
	}
	totalYields := r.Steps - steps0
	if totalYields < 10 {
		totalYields = 10
	}
	sched := r.NewSched()
	sched.SyncSwitchOneIn = 2
	nPre := 1 + r.Choose(3, "c18b.npreempt")
	if tier == Thorough {
		nPre = 1 + r.Choose(6, "c18b.npreempt")
	}
	var pre []uint64
	for i := 0; i < nPre; i++ {
		pre = append(pre, uint64(1+r.Choose(int(totalYields), "c18b.preempt.at")))
	}
	sched.SetPreemptions(pre)
	conc := make([]c18bResult, nTasks)
	names := make([]string, nTasks)
	fns := make([]func(), nTasks)
	for t := range jobs {
		t := t
		names[t] = fmt.Sprintf("T%d", t)
		fns[t] = func() {
			if jobs[t].tz {
				conc[t] = tzWork()
			} else {
				conc[t] = c18bPipeline(jobs[t].src, jobs[t].store)
			}
		}
	}
	sched.RunTasks(names, fns)
	var descr []string
	for t, j := range jobs {
		if j.tz {
			descr = append(descr, fmt.Sprintf("T%d: SetTimezone(\"UTC\") x3", t))
		} else {
			descr = append(descr, fmt.Sprintf("T%d: store=%s stage=%q facts=%d\n%s", t, StoreNames[j.store], solo[t].Stage, len(solo[t].Facts), j.src))
		}
	}
	ctx := strings.Join(descr, "\n")
	for _, t := range sched.Tasks {
		if t.Panic != nil {
			return Violation("C18/panic", "task %s panicked when run in parallel (solo run did not): %v\n%s\n%s", t.Name, t.Panic, trimStack(t.PanicStack), ctx)
		}
	}
	if sched.Deadlock {
		return Violation("C18/deadlock", "deadlock: %s\n%s", sched.DeadlockInfo, ctx)
	}
	if len(sched.Races) > 0 {
		return Violation("C18/lockset", "%s\n%s", strings.Join(sched.Races, "; "), ctx)
	}
	for t := range jobs {
		if !solo[t].equal(conc[t]) {
			return Violation("C18/interference", "task T%d gives a different result in parallel than alone\nalone:    stage=%q err=%q facts=%v\nparallel: stage=%q err=%q facts=%v\n%s",
				t, solo[t].Stage, solo[t].Err, solo[t].Facts, conc[t].Stage, conc[t].Err, conc[t].Facts, ctx)
		}
	}
	if sched.Switches > nTasks {
		r.Probe("partB-switches")
	}
	return Outcome{Nontrivial: sched.Switches >= nTasks, DistinctKey: sched.InterleavingHash() | 1,
		Sample: map[string]any{"part": "B", "tasks": descr, "switches": sched.Switches, "preemptions": nPre}}
}
