//go:build verifsim

package harness

import (
	"fmt"

	"codeberg.org/TauCeti/mangle-go/zzsim/simrt"
)

// GenOpts are the swarm flags of the program generator.
type GenOpts struct {
	Recursion   bool
	Mutual      bool
	Negation    bool
	Aggregation bool
	Compare     bool
	Funcs       bool
	Structured  bool
	Lets        bool
	Strings     bool
	NegWildcard bool // wildcards inside negated atoms (meaning: not exists)
	MaxIDB      int
	MaxEDB      int
	MaxFacts    int
	NoFloat     bool // avoid fn:avg (float results)
	NoCollect   bool
	NoOrderCmp  bool // no <, <=, >, >= (C15: outside post-hoc provenance)
	ConstraintsEarly bool // (in)equalities and comparisons are moved as far left as their variables allow
	NegAnywhere bool // negated atoms may be written before the atoms that bind their variables
	NonLinear   bool // bias recursive rules towards several same-group atoms in one body
	IDBFacts    bool // some derived predicates also have base facts written in the program
	Ring        bool // add a ring of 2-4 mutually recursive predicates with one entry point and a consumer
	AggBias     bool // C02: most rules aggregate, several aggregating rules per head
	EqBind      bool // non-recursive rules may bind a new variable by an equality (Y = fn:plus(X, 2), Y = X, Y = /a) without any comparison guard
	HeadFn      bool // non-recursive rules may have a function expression in the head (p(fn:plus(X, 1)) :- ...)
}

// DrawOpts draws swarm flags from the tape.
func DrawOpts(r *simrt.Run) GenOpts {
	o := GenOpts{MaxIDB: 1 + r.Choose(5, "gen.maxidb"), MaxEDB: 1 + r.Choose(3, "gen.maxedb"), MaxFacts: 2 + r.Choose(11, "gen.maxfacts")}
	o.Recursion = r.Bool("gen.f.rec")
	o.Mutual = r.Bool("gen.f.mutual")
	o.Negation = r.Bool("gen.f.neg")
	o.Aggregation = r.Bool("gen.f.agg")
	o.Compare = r.Bool("gen.f.cmp")
	o.Funcs = r.Bool("gen.f.fn")
	o.Structured = r.Bool("gen.f.struct")
	o.Lets = r.Bool("gen.f.let")
	o.Strings = r.Bool("gen.f.str")
	o.NegWildcard = r.Bool("gen.f.negwild")
	o.NegAnywhere = r.Bool("gen.f.neganywhere")
	o.ConstraintsEarly = r.Bool("gen.f.constraintsearly")
	o.NonLinear = r.Bool("gen.f.nonlinear")
	o.IDBFacts = r.Bool("gen.f.idbfacts")
	o.Ring = r.OneIn(3, "gen.f.ring")
	return o
}

type gen struct {
	r     *simrt.Run
	o     GenOpts
	p     *Program
	names []Val
	ints  []Val
	strs  []Val
	// group info
	groupRec map[int]bool
}

var nameUniverse = []string{"/a", "/b", "/c", "/d", "/e"}

func (g *gen) constOf(t Ty) Val {
	r := g.r
	switch t {
	case TName:
		return g.names[r.Choose(len(g.names), "gen.c.name")]
	case TInt:
		return g.ints[r.Choose(len(g.ints), "gen.c.int")]
	case TStr:
		return g.strs[r.Choose(len(g.strs), "gen.c.str")]
	case TListInt:
		n := r.Choose(3, "gen.c.listlen")
		var e []Val
		for i := 0; i < n; i++ {
			e = append(e, g.constOf(TInt))
		}
		return ListV(e...)
	case TSetInt, TSetName:
		et := TInt
		if t == TSetName {
			et = TName
		}
		n := r.Choose(3, "gen.c.setlen")
		var e []Val
		seen := map[string]bool{}
		for i := 0; i < n; i++ {
			v := g.constOf(et)
			if !seen[v.Key()] {
				seen[v.Key()] = true
				e = append(e, v)
			}
		}
		return ListV(e...)
	case TPairNI:
		return PairV(g.constOf(TName), g.constOf(TInt))
	case TFloat:
		return FloatV(float64(r.Choose(4, "gen.c.float")) + 0.5)
	}
	panic("constOf")
}

// GenProgram generates a safe, stratified, type-correct program with a finite model.
func GenProgram(r *simrt.Run, o GenOpts) *Program {
	g := &gen{r: r, o: o, p: &Program{}, groupRec: map[int]bool{}}
	nn := 2 + r.Choose(3, "gen.nnames")
	for i := 0; i < nn; i++ {
		g.names = append(g.names, NameV(nameUniverse[i]))
	}
	ni := 2 + r.Choose(3, "gen.nints")
	for i := 0; i < ni; i++ {
		// zeros matter: mangle's hash of a list ignores them ([0], [0, 0] and
		// [] all hash alike), the stores have to keep such atoms apart
		g.ints = append(g.ints, IntV(int64(i)))
	}
	for i := 0; i < 3; i++ {
		g.strs = append(g.strs, StrV(fmt.Sprintf("s%d", i)))
	}
	baseTypes := []Ty{TName, TInt, TName, TInt}
	if o.Strings {
		baseTypes = append(baseTypes, TStr)
	}
	edbTypes := append([]Ty{}, baseTypes...)
	if o.Structured {
		edbTypes = append(edbTypes, TListInt, TPairNI)
	}
	// EDB predicates
	nEDB := 1 + r.Choose(o.MaxEDB, "gen.nedb")
	for i := 0; i < nEDB; i++ {
		ar := 1 + r.Choose(3, "gen.edb.arity")
		if r.OneIn(8, "gen.edb.arity0") {
			ar = 0
		}
		var cols []Ty
		for c := 0; c < ar; c++ {
			cols = append(cols, edbTypes[r.Choose(len(edbTypes), "gen.edb.col")])
		}
		g.p.Preds = append(g.p.Preds, PredInfo{Name: fmt.Sprintf("e%d", i), Cols: cols, EDB: true, Group: -1, Declared: true})
	}
	// base facts
	for i := 0; i < nEDB; i++ {
		pi := g.p.Preds[i]
		nf := r.Choose(o.MaxFacts+1, "gen.nfacts")
		seen := map[string]bool{}
		for f := 0; f < nf; f++ {
			r.Tape.Mark()
			var args []Val
			for _, t := range pi.Cols {
				args = append(args, g.constOf(t))
			}
			fa := Fact{Pred: pi.Name, Args: args}
			if !seen[fa.Key()] {
				seen[fa.Key()] = true
				g.p.Facts = append(g.p.Facts, fa)
			}
		}
	}
	// IDB predicates in groups
	nIDB := 1 + r.Choose(o.MaxIDB, "gen.nidb")
	group := 0
	for i := 0; i < nIDB; i++ {
		ar := 1 + r.Choose(3, "gen.idb.arity")
		if r.OneIn(10, "gen.idb.arity0") {
			ar = 0
		}
		var cols []Ty
		for c := 0; c < ar; c++ {
			cols = append(cols, baseTypes[r.Choose(len(baseTypes), "gen.idb.col")])
		}
		if o.Structured && ar > 0 && r.OneIn(4, "gen.idb.structcol") {
			cols[ar-1] = []Ty{TListInt, TPairNI}[r.Choose(2, "gen.idb.structty")]
		}
		if o.AggBias && ar > 0 && r.Bool("gen.idb.aggbias.int") {
			cols[ar-1] = TInt
		}
		if o.Aggregation && ar > 0 && r.OneIn(4, "gen.idb.aggcol") {
			at := []Ty{TFloat, TSetInt, TSetName}
			if o.NoFloat {
				at = at[1:]
			}
			if !o.NoCollect || !o.NoFloat {
				cols[ar-1] = at[r.Choose(len(at), "gen.idb.aggty")]
			}
		}
		sameGroup := i > 0 && o.Recursion && o.Mutual && g.groupRec[group] && r.Bool("gen.idb.samegroup")
		if i > 0 && !sameGroup {
			group++
		}
		if !sameGroup {
			g.groupRec[group] = o.Recursion && r.Bool("gen.group.rec")
		}
		g.p.Preds = append(g.p.Preds, PredInfo{Name: fmt.Sprintf("p%d", i), Cols: cols, Group: group})
	}
	// base facts for derived predicates (a predicate may have rules and facts)
	if o.IDBFacts {
		for i := nEDB; i < len(g.p.Preds); i++ {
			pi := g.p.Preds[i]
			hasSet := false
			for _, c := range pi.Cols {
				if c.IsSet() || c == TFloat {
					hasSet = true
				}
			}
			if hasSet || !r.OneIn(3, "gen.idbfact?") {
				continue
			}
			n := 1 + r.Choose(2, "gen.idbfact.n")
			for f := 0; f < n; f++ {
				var args []Val
				for _, t := range pi.Cols {
					args = append(args, g.constOf(t))
				}
				g.p.Facts = append(g.p.Facts, Fact{Pred: pi.Name, Args: args})
			}
		}
	}
	// rules
	for i := nEDB; i < len(g.p.Preds); i++ {
		pi := g.p.Preds[i]
		nr := 1 + r.Choose(3, "gen.nrules")
		for _, c := range pi.Cols {
			if c.IsSet() {
				// a set-valued column is defined by one rule only: two rules
				// could produce the same set as differently ordered lists
				// (list collection order is a documented exclusion)
				nr = 1
			}
		}
		for k := 0; k < nr; k++ {
			r.Tape.Mark()
			g.p.Rules = append(g.p.Rules, g.genRule(pi, k))
		}
	}
	if o.Ring {
		g.addRing(nEDB)
	}
	return g.p
}

// addRing appends a dependency cycle g0 -> g1 -> ... -> g0 of unary
// predicates, fed by one extensional predicate at a drawn entry point (the
// cyclic rule is listed before the entry rule), and a consumer that uses two
// members of the ring.
func (g *gen) addRing(nEDB int) {
	r := g.r
	var src *PredInfo
	for i := 0; i < nEDB; i++ {
		if len(g.p.Preds[i].Cols) >= 1 && !g.p.Preds[i].Cols[0].IsSet() {
			src = &g.p.Preds[i]
			break
		}
	}
	if src == nil {
		return
	}
	t := src.Cols[0]
	k := 2 + r.Choose(3, "gen.ring.k")
	group := 500
	name := func(i int) string { return fmt.Sprintf("g%d", i%k) }
	for i := 0; i < k; i++ {
		g.p.Preds = append(g.p.Preds, PredInfo{Name: name(i), Cols: []Ty{t}, Group: group})
	}
	g.groupRec[group] = true
	entry := r.Choose(k, "gen.ring.entry")
	srcArgs := []Expr{V("X")}
	for range src.Cols[1:] {
		srcArgs = append(srcArgs, V("_"))
	}
	for i := 0; i < k; i++ {
		g.p.Rules = append(g.p.Rules, Rule{Head: name(i), HArgs: []Expr{V("X")}, Body: []Lit{{K: LAtom, Pred: name(i + 1), Args: []Expr{V("X")}}}})
		if i == entry {
			g.p.Rules = append(g.p.Rules, Rule{Head: name(i), HArgs: []Expr{V("X")}, Body: []Lit{{K: LAtom, Pred: src.Name, Args: srcArgs}}})
		}
	}
	a, b := r.Choose(k, "gen.ring.use1"), r.Choose(k, "gen.ring.use2")
	g.p.Preds = append(g.p.Preds, PredInfo{Name: "gc", Cols: []Ty{t}, Group: group + 1})
	g.p.Rules = append(g.p.Rules, Rule{Head: "gc", HArgs: []Expr{V("X")}, Body: []Lit{{K: LAtom, Pred: name(a), Args: []Expr{V("X")}}, {K: LAtom, Pred: name(b), Args: []Expr{V("X")}}}})
}

// AddNegativeCycle appends predicates zc0 .. zc(k-1) whose rules form a
// dependency cycle through exactly one negated mention (zc0 negates the last,
// every other member copies its predecessor): such a program has no
// stratification and has to be refused however it is presented.
func AddNegativeCycle(r *simrt.Run, p *Program) bool {
	var src *PredInfo
	for i := range p.Preds {
		if p.Preds[i].EDB && len(p.Preds[i].Cols) >= 1 && !p.Preds[i].Cols[0].IsSet() {
			src = &p.Preds[i]
			break
		}
	}
	if src == nil {
		return false
	}
	t := src.Cols[0]
	k := 2 + r.Choose(3, "gen.negcycle.k")
	name := func(i int) string { return fmt.Sprintf("zc%d", i) }
	srcArgs := []Expr{V("X")}
	for range src.Cols[1:] {
		srcArgs = append(srcArgs, V("_"))
	}
	for i := 0; i < k; i++ {
		p.Preds = append(p.Preds, PredInfo{Name: name(i), Cols: []Ty{t}, Group: 700})
	}
	p.Rules = append(p.Rules, Rule{Head: name(0), HArgs: []Expr{V("X")}, Body: []Lit{
		{K: LAtom, Pred: src.Name, Args: srcArgs}, {K: LNeg, Pred: name(k - 1), Args: []Expr{V("X")}}}})
	for i := 1; i < k; i++ {
		p.Rules = append(p.Rules, Rule{Head: name(i), HArgs: []Expr{V("X")}, Body: []Lit{{K: LAtom, Pred: name(i - 1), Args: []Expr{V("X")}}}})
	}
	return true
}

type varEnv struct {
	byType map[Ty][]string
	n      int
}

func (e *varEnv) fresh(t Ty) string {
	v := fmt.Sprintf("X%d", e.n)
	e.n++
	e.byType[t] = append(e.byType[t], v)
	return v
}

func (g *gen) pickVar(env *varEnv, t Ty, label string) (string, bool) {
	if t.IsSet() {
		return "", false // set-valued variables never join (order-sensitive equality)
	}
	vs := env.byType[t]
	if len(vs) == 0 {
		return "", false
	}
	return vs[g.r.Choose(len(vs), label)], true
}

// boundArg returns an argument of type t built from bound variables or constants only.
func (g *gen) boundArg(env *varEnv, t Ty) Expr {
	if v, ok := g.pickVar(env, t, "gen.boundvar"); ok && !g.r.OneIn(5, "gen.boundconst") {
		return V(v)
	}
	return C(g.constOf(t))
}

func (g *gen) genRule(h PredInfo, k int) Rule {
	r := g.r
	o := g.o
	env := &varEnv{byType: map[Ty][]string{}}
	rec := g.groupRec[h.Group]
	// aggregation rule?
	aggOdds := 3
	if o.AggBias {
		aggOdds = 1
		if r.OneIn(4, "gen.rule.aggbias.plain") {
			aggOdds = 1000
		}
	}
	if o.Aggregation && !rec && len(h.Cols) >= 1 && r.OneIn(aggOdds, "gen.rule.agg") {
		if rule, ok := g.genAggRule(h, &varEnv{byType: map[Ty][]string{}}); ok {
			return rule
		}
	}
	// candidate body predicates
	var lower, same []PredInfo
	for _, q := range g.p.Preds {
		if q.EDB || q.Group < h.Group {
			lower = append(lower, q)
		} else if q.Group == h.Group && rec {
			same = append(same, q)
		}
	}
	nBody := 1 + r.Choose(3, "gen.nbody")
	if o.NonLinear && rec && k > 0 && nBody < 2 {
		nBody = 2
	}
	var body []Lit
	usesSame := false
	for b := 0; b < nBody; b++ {
		var q PredInfo
		if len(same) > 0 && k > 0 && (r.Bool("gen.body.same") || (o.NonLinear && b < 2)) {
			q = same[r.Choose(len(same), "gen.body.samepred")]
			usesSame = true
		} else {
			q = lower[r.Choose(len(lower), "gen.body.pred")]
		}
		var args []Expr
		for _, t := range q.Cols {
			c := r.Choose(10, "gen.arg.kind")
			if t.IsSet() && c == 8 {
				c = 7 // no list constants against set-valued columns (element order is unspecified)
			}
			switch {
			case c < 5:
				if v, ok := g.pickVar(env, t, "gen.arg.var"); ok {
					args = append(args, V(v))
				} else {
					args = append(args, V(env.fresh(t)))
				}
			case c < 8:
				args = append(args, V(env.fresh(t)))
			case c < 9:
				args = append(args, C(g.constOf(t)))
			default:
				args = append(args, V("_"))
			}
		}
		body = append(body, Lit{K: LAtom, Pred: q.Name, Args: args})
	}
	_ = usesSame
	canConstruct := !rec
	// extras
	nExtra := r.Choose(3, "gen.nextra")
	for x := 0; x < nExtra; x++ {
		switch r.Choose(8, "gen.extra.kind") {
		case 7: // an equality that gives a value to a new variable
			if !o.EqBind || rec {
				continue
			}
			y := fmt.Sprintf("X%d", env.n)
			env.n++
			t := []Ty{TInt, TName}[r.Choose(2, "gen.eqbind.ty")]
			var e Expr
			if v, ok := g.pickVar(env, t, "gen.eqbind.var"); ok && !r.OneIn(4, "gen.eqbind.const") {
				e = V(v)
				if t == TInt && r.Bool("gen.eqbind.fn") {
					e = Fn("fn:plus", V(v), C(IntV(int64(1+r.Choose(3, "gen.eqbind.k")))))
				}
			} else {
				e = C(g.constOf(t))
			}
			if r.OneIn(4, "gen.eqbind.flip") {
				body = append(body, Lit{K: LEq, Args: []Expr{e, V(y)}})
			} else {
				body = append(body, Lit{K: LEq, Args: []Expr{V(y), e}})
			}
			// the new variable is the preferred one of its type from here on
			env.byType[t] = append([]string{y}, env.byType[t]...)
		case 0: // comparison
			if !o.Compare || o.NoOrderCmp {
				continue
			}
			if v, ok := g.pickVar(env, TInt, "gen.cmp.var"); ok {
				op := []LKind{LLt, LLe, LGt, LGe}[r.Choose(4, "gen.cmp.op")]
				rhs := g.boundArg(env, TInt)
				body = append(body, Lit{K: op, Args: []Expr{V(v), rhs}})
			}
		case 1: // inequality / equality filter
			if !o.Compare {
				continue
			}
			t := []Ty{TName, TInt}[r.Choose(2, "gen.neq.ty")]
			if v, ok := g.pickVar(env, t, "gen.neq.var"); ok {
				k := LNeq
				if r.OneIn(4, "gen.neq.iseq") {
					k = LEq
				}
				body = append(body, Lit{K: k, Args: []Expr{V(v), g.boundArg(env, t)}})
			}
		case 2: // arithmetic with guard
			if !o.Funcs {
				continue
			}
			if v, ok := g.pickVar(env, TInt, "gen.fn.var"); ok {
				y := fmt.Sprintf("X%d", env.n)
				env.n++
				var e Expr
				switch r.Choose(3, "gen.fn.kind") {
				case 0:
					e = Fn("fn:plus", V(v), g.boundArg(env, TInt))
				case 1:
					e = Fn("fn:minus", V(v), g.boundArg(env, TInt))
				default:
					e = Fn("fn:mult", V(v), C(IntV(int64(2+r.Choose(2, "gen.fn.mul")))))
				}
				body = append(body, Lit{K: LEq, Args: []Expr{V(y), e}})
				env.byType[TInt] = append(env.byType[TInt], y)
				if rec || !r.OneIn(3, "gen.fn.noguard") {
					body = append(body, Lit{K: LLe, Args: []Expr{V(y), C(IntV(int64(5 + r.Choose(4, "gen.fn.hi"))))}})
					body = append(body, Lit{K: LGe, Args: []Expr{V(y), C(IntV(int64(-r.Choose(4, "gen.fn.lo"))))}})
				}
			}
		case 3: // negation
			if !o.Negation {
				continue
			}
			q := lower[r.Choose(len(lower), "gen.neg.pred")]
			var args []Expr
			hasSet := false
			for _, t := range q.Cols {
				hasSet = hasSet || t.IsSet()
			}
			if hasSet && !o.NegWildcard {
				// a set-valued column can only be matched by a wildcard: the order
				// of a collected list is unspecified, so no list constant equals it reliably
				continue
			}
			for _, t := range q.Cols {
				if t.IsSet() || o.NegWildcard && r.OneIn(4, "gen.neg.wild") {
					args = append(args, V("_"))
				} else {
					args = append(args, g.boundArg(env, t))
				}
			}
			body = append(body, Lit{K: LNeg, Pred: q.Name, Args: args})
		case 4: // destructuring
			if !o.Structured {
				continue
			}
			if v, ok := g.pickVar(env, TPairNI, "gen.ds.pair"); ok && r.Bool("gen.ds.usepair") {
				a, b := env.fresh(TName), env.fresh(TInt)
				body = append(body, Lit{K: LBuiltin, Pred: ":match_pair", Args: []Expr{V(v), V(a), V(b)}})
			} else if v, ok := g.pickVar(env, TListInt, "gen.ds.list"); ok {
				switch r.Choose(4, "gen.ds.listkind") {
				case 0:
					e := env.fresh(TInt)
					body = append(body, Lit{K: LBuiltin, Pred: ":list:member", Args: []Expr{V(e), V(v)}})
				case 1:
					hd, tl := env.fresh(TInt), env.fresh(TListInt)
					body = append(body, Lit{K: LBuiltin, Pred: ":match_cons", Args: []Expr{V(v), V(hd), V(tl)}})
				case 2:
					body = append(body, Lit{K: LBuiltin, Pred: ":match_nil", Args: []Expr{V(v)}})
				default:
					y := env.fresh(TInt)
					body = append(body, Lit{K: LEq, Args: []Expr{V(y), Fn("fn:list:len", V(v))}})
				}
			}
		case 5: // construction
			if !o.Structured || !canConstruct {
				continue
			}
			switch r.Choose(3, "gen.cons.kind") {
			case 0:
				y := fmt.Sprintf("X%d", env.n)
				env.n++
				body = append(body, Lit{K: LEq, Args: []Expr{V(y), Fn("fn:pair", g.boundArg(env, TName), g.boundArg(env, TInt))}})
				env.byType[TPairNI] = append(env.byType[TPairNI], y)
			case 1:
				y := fmt.Sprintf("X%d", env.n)
				env.n++
				n := r.Choose(3, "gen.cons.listn")
				var es []Expr
				for i := 0; i < n; i++ {
					es = append(es, g.boundArg(env, TInt))
				}
				body = append(body, Lit{K: LEq, Args: []Expr{V(y), Fn("fn:list", es...)}})
				env.byType[TListInt] = append(env.byType[TListInt], y)
			default:
				if l, ok := g.pickVar(env, TListInt, "gen.cons.tail"); ok {
					y := fmt.Sprintf("X%d", env.n)
					env.n++
					body = append(body, Lit{K: LEq, Args: []Expr{V(y), Fn("fn:list:cons", g.boundArg(env, TInt), V(l))}})
					env.byType[TListInt] = append(env.byType[TListInt], y)
				}
			}
		case 6: // strings
			if !o.Strings {
				continue
			}
			if v, ok := g.pickVar(env, TStr, "gen.str.var"); ok {
				switch r.Choose(4, "gen.str.kind") {
				case 0:
					body = append(body, Lit{K: LBuiltin, Pred: ":string:starts_with", Args: []Expr{V(v), C(StrV([]string{"s", "s1", ""}[r.Choose(3, "gen.str.pfx")]))}})
				case 1:
					body = append(body, Lit{K: LBuiltin, Pred: ":string:ends_with", Args: []Expr{V(v), C(StrV([]string{"0", "1", "x"}[r.Choose(3, "gen.str.sfx")]))}})
				case 2:
					body = append(body, Lit{K: LBuiltin, Pred: ":string:contains", Args: []Expr{V(v), C(StrV([]string{"s", "2", "s0"}[r.Choose(3, "gen.str.sub")]))}})
				default:
					if canConstruct {
						y := fmt.Sprintf("X%d", env.n)
						env.n++
						body = append(body, Lit{K: LEq, Args: []Expr{V(y), Fn("fn:string:concat", V(v), C(StrV("x")))}})
						env.byType[TStr] = append(env.byType[TStr], y)
					}
				}
			}
		}
	}
	if o.ConstraintsEarly {
		// move each filter ((in)equality between bound terms, comparison) to the
		// earliest position at which all its variables are bound by atoms
		for i := 0; i < len(body); i++ {
			l := body[i]
			if l.K == LAtom || l.K == LNeg || l.K == LBuiltin {
				continue
			}
			vars := map[string]bool{}
			l.Vars(vars)
			if l.K == LEq && l.Args[0].Var != "" {
				// a binding equality: only its right-hand side has to be bound
				vars = exprVars(l.Args[1])
				continue
			}
			bound := map[string]bool{}
			earliest := 0
			for j := 0; j < i; j++ {
				if allBound(vars, bound) {
					break
				}
				if bs, ok := litBinds(body[j], bound); ok {
					for _, v := range bs {
						bound[v] = true
					}
				}
				earliest = j + 1
			}
			if !allBound(vars, bound) || earliest >= i || !r.Bool("gen.constraint.early") {
				continue
			}
			copy(body[earliest+1:i+1], body[earliest:i])
			body[earliest] = l
		}
	}
	if o.NegAnywhere {
		// move negated atoms to drawn positions: analysis is expected to delay
		// them until their variables are bound
		for i := range body {
			if body[i].K != LNeg {
				continue
			}
			j := r.Choose(i+1, "gen.neg.position")
			if j < i {
				l := body[i]
				copy(body[j+1:i+1], body[j:i])
				body[j] = l
			}
		}
	}
	rule := Rule{Head: h.Name, Body: body}
	// let-transform
	if o.Lets && canConstruct && r.OneIn(4, "gen.rule.let") {
		if v, ok := g.pickVar(env, TInt, "gen.let.var"); ok {
			y := fmt.Sprintf("X%d", env.n)
			env.n++
			rule.Lets = append(rule.Lets, Let{Var: y, E: Fn("fn:plus", V(v), C(IntV(int64(1+r.Choose(3, "gen.let.k")))))})
			// the let variable is the preferred int for the head
			env.byType[TInt] = append([]string{y}, env.byType[TInt]...)
			if r.Bool("gen.let.prefer") {
				env.byType[TInt] = []string{y}
			}
		}
	}
	for _, t := range h.Cols {
		a := g.boundArg(env, t)
		if o.HeadFn && !rec && t == TInt && a.Var != "" && r.OneIn(3, "gen.headfn") {
			a = Fn("fn:plus", a, C(IntV(int64(1+r.Choose(3, "gen.headfn.k")))))
		}
		rule.HArgs = append(rule.HArgs, a)
	}
	return rule
}

// genAggRule builds `h(K.., R..) :- body |> do fn:group_by(K..), let R = fn:red(..)`.
func (g *gen) genAggRule(h PredInfo, env *varEnv) (Rule, bool) {
	r := g.r
	// split columns: a prefix of key columns, then reducer columns (int / float / list<int> / list<name>)
	nCols := len(h.Cols)
	nRed := 0
	for i := nCols - 1; i >= 0; i-- {
		t := h.Cols[i]
		if t == TInt || t == TFloat || t.IsSet() {
			nRed++
		} else {
			break
		}
	}
	if nRed == 0 {
		return Rule{}, false
	}
	if nRed > 2 {
		nRed = 2
	}
	nRed = 1 + r.Choose(nRed, "gen.agg.nred")
	nKeys := nCols - nRed
	var lower []PredInfo
	for _, q := range g.p.Preds {
		if q.EDB || q.Group < h.Group {
			lower = append(lower, q)
		}
	}
	nBody := 1 + r.Choose(2, "gen.agg.nbody")
	var body []Lit
	for b := 0; b < nBody; b++ {
		q := lower[r.Choose(len(lower), "gen.agg.pred")]
		var args []Expr
		for _, t := range q.Cols {
			c := r.Choose(10, "gen.agg.arg")
			switch {
			case c < 4:
				if v, ok := g.pickVar(env, t, "gen.agg.var"); ok {
					args = append(args, V(v))
				} else {
					args = append(args, V(env.fresh(t)))
				}
			case c < 9:
				args = append(args, V(env.fresh(t)))
			default:
				// (no wildcards here: whether an anonymous column counts as part
				// of a "solution" differs between single- and multi-atom bodies
				// and the statement does not settle it)
				if t.IsSet() {
					// no list constants against set-valued columns (element order is unspecified)
					args = append(args, V(env.fresh(t)))
				} else {
					args = append(args, C(g.constOf(t)))
				}
			}
		}
		body = append(body, Lit{K: LAtom, Pred: q.Name, Args: args})
	}
	if g.o.Compare && !g.o.NoOrderCmp && r.OneIn(3, "gen.agg.cmp") {
		if v, ok := g.pickVar(env, TInt, "gen.agg.cmpvar"); ok {
			body = append(body, Lit{K: LGe, Args: []Expr{V(v), C(g.constOf(TInt))}})
		}
	}
	// a value computed in the body (written either way round) that the reducers then prefer
	if r.OneIn(3, "gen.agg.eqbind") {
		y := fmt.Sprintf("X%d", env.n)
		env.n++
		var e Expr = C(g.constOf(TInt))
		if v, ok := g.pickVar(env, TInt, "gen.agg.eqvar"); ok && !r.OneIn(4, "gen.agg.eqconst") {
			e = Fn("fn:plus", V(v), C(IntV(int64(1+r.Choose(3, "gen.agg.eqk")))))
		}
		if r.Bool("gen.agg.eqflip") {
			body = append(body, Lit{K: LEq, Args: []Expr{e, V(y)}})
		} else {
			body = append(body, Lit{K: LEq, Args: []Expr{V(y), e}})
		}
		env.byType[TInt] = append([]string{y}, env.byType[TInt]...)
	}
	do := &Do{}
	var hargs []Expr
	usedKey := map[string]bool{}
	for i := 0; i < nKeys; i++ {
		v, ok := g.pickVar(env, h.Cols[i], "gen.agg.key")
		if !ok || usedKey[v] {
			return Rule{}, false
		}
		usedKey[v] = true
		do.Keys = append(do.Keys, v)
		hargs = append(hargs, V(v))
	}
	for i := nKeys; i < nCols; i++ {
		t := h.Cols[i]
		out := fmt.Sprintf("R%d", i)
		var e Expr
		switch t {
		case TInt:
			k := r.Choose(4, "gen.agg.red")
			iv, ok := g.pickVar(env, TInt, "gen.agg.redvar")
			if !ok || k == 0 {
				e = Fn("fn:count")
			} else {
				e = Fn([]string{"", "fn:sum", "fn:min", "fn:max"}[k], V(iv))
			}
		case TFloat:
			iv, ok := g.pickVar(env, TInt, "gen.agg.avgvar")
			if !ok || g.o.NoFloat {
				return Rule{}, false
			}
			e = Fn("fn:avg", V(iv))
		case TSetInt:
			iv, ok := g.pickVar(env, TInt, "gen.agg.colvar")
			if !ok || g.o.NoCollect {
				return Rule{}, false
			}
			e = Fn("fn:collect_distinct", V(iv))
		case TSetName:
			iv, ok := g.pickVar(env, TName, "gen.agg.colvar")
			if !ok || g.o.NoCollect {
				return Rule{}, false
			}
			e = Fn("fn:collect_distinct", V(iv))
		}
		do.Lets = append(do.Lets, Let{Var: out, E: e})
		hargs = append(hargs, V(out))
	}
	return Rule{Head: h.Name, HArgs: hargs, Body: body, Do: do}, true
}
