//go:build verifsim

package harness

import (
	"os"
	"math"
	"bytes"
	"compress/gzip"
	"fmt"
	"io"
	"sort"
	"strings"

	"github.com/klauspost/compress/zstd"

	"codeberg.org/TauCeti/mangle-go/ast"
	"codeberg.org/TauCeti/mangle-go/factstore"
	"codeberg.org/TauCeti/mangle-go/zzsim/simrt"
)

func init() {
	Register(&Prop{ID: "C19", Run: runC19, Probes: c19Probes()})
}

// richPool: constants of every kind, with the characters the format has to
// get right.
func richPool(r *simrt.Run, n int) []Val {
	names := []string{"/a", "/b", "/a/b", "/x.y", "/x-y_z", "/t~1", "/A/b/C", "/n0", "/a%41", "/100%", "/%", "/a%b%41", "/%%", "/x%25%2F"}
	strs := []string{"", "s", "a b", "q\"uote", "back\\slash", "tab\there", "new\nline", "ünï©ode \U0001f600", "'single'", "/looks/like/name", "100%", "a+b", "[1, 2]", "x\x00y", "\x7f", "cr\rlf", "crlf\r\nend", "\r"}
	bytess := []string{"", "\x00\xff\x80", "ab\"c\\", "\n\r\t"}
	ints := []int64{0, 1, -1, 7, 42, 9223372036854775807, -9223372036854775808, 65792}
	floats := []float64{0.5, -2.25, 3.14159, 1e-7, 1.5e300, 123456.789}
	if os.Getenv("MGSIM_C19_NONFINITE") != "" {
		// not part of the registered workload: non-finite floats have no
		// textual form (open finding non-finite-floats-do-not-reload)
		floats = append(floats, math.NaN(), math.Inf(1), math.Inf(-1))
	}
	times := []int64{0, 1, 1700000000123456789, -86400000000000}
	durs := []int64{0, 1, 1500000000, 3600000000000, -1000000}
	// now and then one string whose printed form is longer than the 64 KiB
	// default token limit of bufio.Scanner (boundary and far beyond)
	var long *Val
	if r.OneIn(10, "rp.longstr") {
		n := []int{65533, 65534, 65535, 65536, 70000, 150000}[r.Choose(6, "rp.longlen")]
		v := StrV("L" + strings.Repeat("x", n-2) + "R")
		long = &v
		r.Probe("string-longer-than-64KiB-line")
	}
	atom := func() Val {
		switch r.Choose(8, "rp.kind") {
		case 0, 1:
			return NameV(names[r.Choose(len(names), "rp.name")])
		case 2:
			return StrV(strs[r.Choose(len(strs), "rp.str")])
		case 3:
			return IntV(ints[r.Choose(len(ints), "rp.int")])
		case 4:
			return FloatV(floats[r.Choose(len(floats), "rp.float")])
		case 5:
			return Val{K: VBytes, S: bytess[r.Choose(len(bytess), "rp.bytes")]}
		case 6:
			return Val{K: VTime, N: times[r.Choose(len(times), "rp.time")]}
		default:
			return Val{K: VDur, N: durs[r.Choose(len(durs), "rp.dur")]}
		}
	}
	var gen func(d int) Val
	gen = func(d int) Val {
		if d == 0 || r.Choose(3, "rp.struct?") < 2 {
			return atom()
		}
		switch r.Choose(4, "rp.shape") {
		case 0:
			return PairV(gen(d-1), gen(d-1))
		case 1:
			k := r.Choose(4, "rp.listlen")
			var es []Val
			for i := 0; i < k; i++ {
				es = append(es, gen(d-1))
			}
			return ListV(es...)
		case 2:
			v := Val{K: VMap}
			k := 1 + r.Choose(2, "rp.maplen")
			hs := map[uint64]bool{}
			for i := 0; i < k; i++ {
				key := atom()
				h := ToConst(key).Hash()
				if hs[h] {
					continue
				}
				hs[h] = true
				v.Elems = append(v.Elems, key, gen(d-1))
			}
			return v
		default:
			v := Val{K: VStruct}
			k := 1 + r.Choose(2, "rp.structlen")
			seen := map[string]bool{}
			for i := 0; i < k; i++ {
				key := NameV([]string{"/f", "/g", "/h"}[r.Choose(3, "rp.field")])
				if seen[key.S] {
					continue
				}
				seen[key.S] = true
				v.Elems = append(v.Elems, key, gen(d-1))
			}
			return v
		}
	}
	var pool []Val
	seen := map[string]bool{}
	if long != nil {
		pool = append(pool, *long)
		seen[long.Key()] = true
	}
	for i := 0; i < 3*n && len(pool) < n; i++ {
		v := gen(2)
		if !seen[v.Key()] {
			seen[v.Key()] = true
			pool = append(pool, v)
		}
	}
	return pool
}

// emptyListingStore lists an extra predicate that has no facts (a read-only
// presentation layer is entitled to do that).
type emptyListingStore struct {
	factstore.FactStore
	extra []ast.PredicateSym
}

func (e emptyListingStore) ListPredicates() []ast.PredicateSym {
	return append(append([]ast.PredicateSym{}, e.FactStore.ListPredicates()...), e.extra...)
}

type codec int

func (c codec) String() string { return [...]string{"plain", "gzip", "zstd"}[c] }

// writeStore serialises through codec onto w; returns the first error of
// WriteTo / Close of the compressor.
func writeStore(sc factstore.SimpleColumn, s factstore.ReadOnlyFactStore, c codec, w io.Writer) error {
	switch c {
	case 0:
		return sc.WriteTo(s, w)
	case 1:
		gz := gzip.NewWriter(w)
		if err := sc.WriteTo(s, gz); err != nil {
			gz.Close()
			return err
		}
		return gz.Close()
	default:
		zw, err := zstd.NewWriter(w, zstd.WithEncoderConcurrency(1))
		if err != nil {
			return err
		}
		if err := sc.WriteTo(s, zw); err != nil {
			zw.Close()
			return err
		}
		return zw.Close()
	}
}

func decoder(c codec, rd io.Reader) (io.ReadCloser, error) {
	switch c {
	case 0:
		return io.NopCloser(rd), nil
	case 1:
		g, err := gzip.NewReader(rd)
		if err != nil {
			return nil, err
		}
		return g, nil
	default:
		d, err := zstd.NewReader(rd, zstd.WithDecoderConcurrency(1))
		if err != nil {
			return nil, err
		}
		return d.IOReadCloser(), nil
	}
}

func factSetOf(s factstore.ReadOnlyFactStore) (map[string]int, error) {
	out := map[string]int{}
	var ferr error
	for _, p := range s.ListPredicates() {
		err := s.GetFacts(ast.NewQuery(p), func(a ast.Atom) error {
			f, err := FromAtom(a)
			if err != nil {
				ferr = err
				return nil
			}
			out[f.Key()]++
			return nil
		})
		if err != nil {
			return nil, err
		}
	}
	return out, ferr
}

func runC19(r *simrt.Run, tier Tier) Outcome {
	r.OrderPolicy = r.Choose(simrt.NumOrderPolicies, "c19.order")
	r.OrderSeed = uint64(r.Choose(1<<16, "c19.orderseed"))
	pool := richPool(r, 4+r.Choose(8, "c19.pool"))
	type pd struct {
		name string
		ar   int
	}
	allPreds := []pd{{"p", 1}, {"p", 2}, {"zero", 0}, {"r_x", 3}, {"pk.q", 1}}
	np := 1 + r.Choose(len(allPreds), "c19.npreds")
	var facts []Fact
	seen := map[string]bool{}
	hseen := map[string]bool{}
	for _, p := range allPreds[:np] {
		n := r.Choose(6, "c19.nfacts")
		if p.ar == 0 {
			n = r.Choose(2, "c19.zero")
		}
		for i := 0; i < n; i++ {
			f := Fact{Pred: p.name}
			for a := 0; a < p.ar; a++ {
				f.Args = append(f.Args, pool[r.Choose(len(pool), "c19.arg")])
			}
			hk := predID(f) + "#" + ArgHashKey(ToAtom(f))
			if seen[f.Key()] {
				continue
			}
			if hseen[hk] {
				r.Probe("fact-set-has-atoms-with-equal-hash")
			}
			seen[f.Key()] = true
			hseen[hk] = true
			facts = append(facts, f)
		}
	}
	srcKind := r.Choose(4, "c19.srckind")
	src := newRemovable(srcKind)
	want := map[string]int{}
	for _, i := range shuffleInts(r, len(facts), "c19.insperm") {
		src.Add(ToAtom(facts[i]))
		want[facts[i].Key()] = 1
	}
	var presented factstore.FactStore = src
	emptyPred := r.OneIn(4, "c19.emptypred")
	if emptyPred {
		presented = emptyListingStore{src, []ast.PredicateSym{{Symbol: "nofacts", Arity: 2}, {Symbol: "nozero", Arity: 0}}}
		r.Probe("empty-predicate-listed")
	}
	c := codec(r.Choose(3, "c19.codec"))
	sc := factstore.SimpleColumn{Deterministic: r.Bool("c19.determ")}
	fault := r.Choose(6, "c19.fault") // 0,1,2 none; 3 write error; 4 read error; 5 opener failure
	ctx := func() string {
		var ks []string
		for k := range want {
			ks = append(ks, k)
		}
		sort.Strings(ks)
		return fmt.Sprintf("codec=%s deterministic=%v source=%s empty-pred-listed=%v order=%s\nfacts:\n  %s", c, sc.Deterministic, removableNames[srcKind], emptyPred, simrt.OrderNames[r.OrderPolicy], strings.Join(ks, "\n  "))
	}
	// ---- write
	w := NewSimWriter(r)
	var cleanLen int
	if fault == 3 {
		// learn the length first, then fail at a drawn offset
		w0 := NewSimWriter(r)
		if err := writeStore(sc, presented, c, w0); err != nil {
			return Violation("C19/write-error", "WriteTo onto an accepting writer failed: %v\n%s", err, ctx())
		}
		cleanLen = len(w0.Data)
		if cleanLen == 0 {
			return Outcome{Discard: "empty-medium"}
		}
		w.FailAt = r.Choose(cleanLen, "c19.wfail.at")
		w.Sticky = r.Bool("c19.wfail.sticky")
	}
	werr := writeStore(sc, presented, c, w)
	r.Logf("write %s -> %d bytes err=%v (fault=%d failAt=%d)", c, len(w.Data), werr, fault, w.FailAt)
	if werr != nil {
		if fault != 3 {
			return Violation("C19/write-error", "WriteTo onto an accepting writer failed: %v\n%s", werr, ctx())
		}
		// a reported write error is fine
		return Outcome{Nontrivial: len(facts) >= 2, Sample: map[string]any{"facts": len(facts), "fault": "write-error reported"}}
	}
	if fault == 3 && w.Fired {
		// the writer failed but nobody said so: the medium must still be complete
		r.Probe("write-error-swallowed?")
	}
	medium := w.Data
	// ---- read back eagerly
	readMode := r.Choose(4, "c19.readmode")
	rseed := uint64(r.Choose(1<<16, "c19.readseed"))
	dstKind := r.Choose(4, "c19.dstkind")
	rd := NewSimReader(r, medium, readMode, rseed)
	if fault == 4 && len(medium) > 0 {
		rd.FailAt = r.Choose(len(medium), "c19.rfail.at")
	}
	dst := newRemovable(dstKind)
	var rerr error
	dec, derr := decoder(c, rd)
	if derr != nil {
		rerr = derr
	} else {
		rerr = sc.ReadInto(dec, dst)
		dec.Close()
	}
	r.Logf("ReadInto(%s, mode=%d) err=%v reads=%d", removableNames[dstKind], readMode, rerr, rd.Reads)
	if rerr == nil {
		got, err := factSetOf(dst)
		if err != nil {
			return Violation("C19/reload-malformed", "reloaded store holds a malformed atom: %v\n%s", err, ctx())
		}
		if d := diffCounts(want, got); d != "" {
			cls := "C19/reload-mismatch"
			if fault == 3 && w.Fired {
				cls = "C19/write-error-swallowed"
			} else if fault == 4 && rd.Fired {
				cls = "C19/read-error-swallowed"
			}
			return Violation(cls, "ReadInto returned nil but the reloaded set differs from the original: %s\nmedium (%d bytes): %q\n%s", d, len(medium), clip(medium, c), ctx())
		}
	} else if fault < 3 || (fault == 5) {
		return Violation("C19/reload-error", "ReadInto failed on an intact medium: %v\nmedium (%d bytes): %q\n%s", rerr, len(medium), clip(medium, c), ctx())
	} else if fault == 3 && !w.Fired {
		return Violation("C19/reload-error", "ReadInto failed on an intact medium: %v\n%s", rerr, ctx())
	}
	// ---- lazy view
	if fault != 4 {
		opens := 0
		failOpen := -1
		if fault == 5 {
			failOpen = r.Choose(4, "c19.openfail")
		}
		opener := func() (io.ReadCloser, error) {
			opens++
			if opens-1 == failOpen {
				r.Fault("open-error")
				return nil, ErrInjectedOpen
			}
			return decoder(c, NewSimReader(r, medium, readMode, rseed+uint64(opens)))
		}
		lazy, err := factstore.NewSimpleColumnStore(opener)
		if err != nil {
			if failOpen == 0 {
				return Outcome{Nontrivial: len(facts) >= 2, Sample: map[string]any{"facts": len(facts), "fault": "open error on first open reported"}}
			}
			return Violation("C19/lazy-open-error", "NewSimpleColumnStore failed on an intact medium: %v\n%s", err, ctx())
		}
		// every pattern shape
		nq := 2 + r.Choose(5, "c19.nqueries")
		for qi := 0; qi < nq; qi++ {
			var f Fact
			absent := false
			if len(facts) > 0 && !r.OneIn(6, "c19.q.absent") {
				f = facts[r.Choose(len(facts), "c19.q.fact")]
			} else {
				f = Fact{Pred: "absent", Args: []Val{NameV("/a")}}
				absent = true
			}
			var args []ast.BaseTerm
			var cons []int
			shape := r.Choose(3, "c19.q.shape") // 0 all vars, 1 one constant, 2 ground
			cpos := 0
			if len(f.Args) > 0 {
				cpos = r.Choose(len(f.Args), "c19.q.cpos")
			}
			for j, a := range f.Args {
				if shape == 2 || (shape == 1 && j == cpos) {
					args = append(args, ToConst(a))
					cons = append(cons, j)
				} else {
					args = append(args, ast.Variable{Symbol: fmt.Sprintf("X%d", j)})
				}
			}
			q := ast.Atom{Predicate: ast.PredicateSym{Symbol: f.Pred, Arity: len(f.Args)}, Args: args}
			wantQ := map[string]int{}
			if !absent {
				for _, g := range facts {
					if matchesCons(g, f, cons) {
						wantQ[g.Key()] = 1
					}
				}
			}
			gotQ := map[string]int{}
			opensBefore := opens
			var cbErr error
			err := lazy.GetFacts(q, func(a ast.Atom) error {
				ff, err := FromAtom(a)
				if err != nil {
					cbErr = err
					return nil
				}
				gotQ[ff.Key()]++
				return nil
			})
			openFailedNow := failOpen >= opensBefore && failOpen < opens
			r.Logf("lazy GetFacts(%v) -> %d facts err=%v", q, len(gotQ), err)
			if cbErr != nil {
				return Violation("C19/reload-malformed", "lazy view yields a malformed atom: %v\n%s", cbErr, ctx())
			}
			if err != nil {
				if openFailedNow {
					continue // reported
				}
				return Violation("C19/lazy-error", "GetFacts(%v) on the lazy view of an intact medium failed: %v\nmedium: %q\n%s", q, err, clip(medium, c), ctx())
			}
			if openFailedNow {
				return Violation("C19/open-error-swallowed", "the opener failed during GetFacts(%v) but GetFacts returned nil", q)
			}
			if d := diffCounts(wantQ, gotQ); d != "" {
				return Violation("C19/lazy-mismatch", "lazy GetFacts(%v): %s\nmedium: %q\n%s", q, d, clip(medium, c), ctx())
			}
			if shape == 2 && !absent {
				if !lazy.Contains(ToAtom(f)) && !(failOpen >= 0 && failOpen < opens) {
					return Violation("C19/lazy-mismatch", "lazy Contains(%s) = false\n%s", f.Key(), ctx())
				}
			}
		}
		// saving the lazy view again must neither fail nor disturb the view
		if failOpen < 0 && r.OneIn(3, "c19.resave") {
			w3 := NewSimWriter(r)
			sc3 := factstore.SimpleColumn{Deterministic: r.Bool("c19.resave.determ")}
			if err := sc3.WriteTo(lazy, w3); err != nil {
				return Violation("C19/resave-error", "WriteTo(lazy view) failed: %v\n%s", err, ctx())
			}
			dst3 := newRemovable(dstKind)
			if err := sc3.ReadInto(bytes.NewReader(w3.Data), dst3); err != nil {
				return Violation("C19/resave-error", "reading back a re-saved lazy view failed: %v\n%s", err, ctx())
			}
			got3, _ := factSetOf(dst3)
			if d := diffCounts(want, got3); d != "" {
				return Violation("C19/resave-mismatch", "re-saved lazy view reloads differently: %s\noriginal medium: %q\nre-saved medium: %q\n%s", d, clip(medium, c), clip(w3.Data, 0), ctx())
			}
			got4, err := factSetOf(lazy)
			if err != nil {
				return Violation("C19/lazy-error", "scan of the lazy view after re-saving it failed: %v\n%s", err, ctx())
			}
			if d := diffCounts(want, got4); d != "" {
				return Violation("C19/lazy-disturbed", "after WriteTo(lazy view, deterministic=%v) the lazy view answers differently: %s\nmedium: %q\n%s", sc3.Deterministic, d, clip(medium, c), ctx())
			}
			r.Probe("lazy-view-resaved")
		}
		if failOpen < 0 {
			if n := lazy.EstimateFactCount(); n != len(facts) {
				return Violation("C19/lazy-count", "lazy EstimateFactCount = %d, %d facts were written\n%s", n, len(facts), ctx())
			}
		}
	}
	// ---- thorough: enumerate every fault offset of a small medium
	if tier == Thorough && len(medium) <= 1024 && (fault == 3 || fault == 4) {
		for k := 0; k <= len(medium); k++ {
			if fault == 4 {
				rd := NewSimReader(r, medium, 0, rseed)
				rd.FailAt = k
				if k == len(medium) {
					rd.FailAt = -1
				}
				dstk := newRemovable(dstKind)
				dec, err := decoder(c, rd)
				if err != nil {
					continue
				}
				err = sc.ReadInto(dec, dstk)
				dec.Close()
				if err != nil {
					continue
				}
				got, gerr := factSetOf(dstk)
				if d := diffCounts(want, got); d != "" || gerr != nil {
					return Violation("C19/read-error-swallowed", "read error injected at offset %d of %d: ReadInto returned nil but the reloaded set differs: %s %v\nmedium: %q\n%s", k, len(medium), d, gerr, clip(medium, c), ctx())
				}
			} else {
				wk := NewSimWriter(r)
				wk.FailAt = k
				wk.Sticky = k%2 == 0
				if err := writeStore(sc, presented, c, wk); err != nil {
					continue
				}
				if !wk.Fired {
					continue
				}
				dstk := newRemovable(dstKind)
				var err error
				dec, derr := decoder(c, bytes.NewReader(wk.Data))
				if derr != nil {
					err = derr
				} else {
					err = sc.ReadInto(dec, dstk)
				}
				got, _ := factSetOf(dstk)
				if d := diffCounts(want, got); err != nil || d != "" {
					return Violation("C19/write-error-swallowed", "write error injected at offset %d: WriteTo reported success but the medium does not reload to the original set (err=%v): %s\n%s", k, err, d, ctx())
				}
			}
		}
		r.Probe("fault-offset-sweep")
	}
	// ---- deterministic bytes: same set through another store kind, insertion order and map order
	if sc.Deterministic && fault < 3 {
		src2 := newRemovable(r.Choose(4, "c19.src2kind"))
		for _, i := range shuffleInts(r, len(facts), "c19.insperm2") {
			src2.Add(ToAtom(facts[i]))
		}
		old := r.OrderPolicy
		r.OrderPolicy = r.Choose(simrt.NumOrderPolicies, "c19.order2")
		w2 := NewSimWriter(r)
		err := writeStore(sc, src2, 0, w2)
		var w1 *SimWriter
		if c == 0 {
			w1 = w
		} else {
			w1 = NewSimWriter(r)
			r.OrderPolicy = old
			if err1 := writeStore(sc, presented, 0, w1); err1 != nil {
				return Violation("C19/write-error", "WriteTo failed: %v", err1)
			}
		}
		r.OrderPolicy = old
		if err != nil {
			return Violation("C19/write-error", "second WriteTo failed: %v", err)
		}
		if !bytes.Equal(w1.Data, w2.Data) {
			return Violation("C19/deterministic-bytes-differ", "two deterministic writes of the same fact set differ\nfirst:  %q\nsecond: %q\n%s", w1.Data, w2.Data, ctx())
		}
		r.Probe("deterministic-bytes-compared")
	}
	return Outcome{Nontrivial: len(facts) >= 2, Sample: map[string]any{"facts": len(facts), "codec": c.String(), "deterministic": sc.Deterministic, "fault": fault, "bytes": len(medium)}}
}

func clip(b []byte, c codec) string {
	if c != 0 {
		return fmt.Sprintf("(%s-compressed, %d bytes)", c, len(b))
	}
	if len(b) > 600 {
		return string(b[:600]) + "..."
	}
	return string(b)
}

func diffCounts(want, got map[string]int) string {
	var parts []string
	var ks []string
	for k := range want {
		ks = append(ks, k)
	}
	for k := range got {
		if _, ok := want[k]; !ok {
			ks = append(ks, k)
		}
	}
	sort.Strings(ks)
	for _, k := range ks {
		if want[k] != got[k] {
			parts = append(parts, fmt.Sprintf("%s: written %d, read back %d", k, want[k], got[k]))
		}
	}
	return strings.Join(parts, "; ")
}

func c19Probes() []Probe {
	roundTrip := func(v ast.Constant) Outcome {
		src := factstore.NewSimpleInMemoryStore()
		src.Add(ast.NewAtom("p", v))
		var buf bytes.Buffer
		if err := (factstore.SimpleColumn{}).WriteTo(src, &buf); err != nil {
			return Outcome{} // refusing to write is a report, not a silent loss
		}
		back := factstore.NewSimpleInMemoryStore()
		if err := (factstore.SimpleColumn{}).ReadInto(bytes.NewReader(buf.Bytes()), back); err != nil {
			return Violation("C19/reload-error", "p(%v) was written without error as %q and cannot be read back: %v", v, buf.String(), err)
		}
		if !back.Contains(ast.NewAtom("p", v)) {
			return Violation("C19/reload-mismatch", "p(%v) was written as %q and reloads to a different fact", v, buf.String())
		}
		return Outcome{}
	}
	return []Probe{{
		Key:  "non-finite-floats-do-not-reload",
		Desc: "a float that is NaN or infinite is printed as NaN / +Inf / -Inf, which the parser does not read as a float",
		Run: func(r *simrt.Run) Outcome {
			for _, f := range []float64{math.NaN(), math.Inf(1), math.Inf(-1)} {
				if o := roundTrip(ast.Float64(f)); o.Failed() {
					return o
				}
			}
			return Outcome{}
		}}}
}
