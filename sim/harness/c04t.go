//go:build verifsim

package harness

import (
	"fmt"
	"strings"
	"time"

	"codeberg.org/TauCeti/mangle-go/ast"
	"codeberg.org/TauCeti/mangle-go/engine"
	"codeberg.org/TauCeti/mangle-go/factstore"
	"codeberg.org/TauCeti/mangle-go/zzsim/simrt"
)

// Temporal part of C04: one rule with a temporal head annotation over a
// temporal base predicate. The variables of the head annotation have to be
// bound by the body like any head variable: a clause in which one of them
// cannot receive a value is unsafe and must be refused; an accepted clause
// must evaluate without error and store ground atoms with concrete intervals.
func runC04Temporal(r *simrt.Run, tier Tier) Outcome {
	r.OrderPolicy = r.Choose(simrt.NumOrderPolicies, "c04t.order")
	r.OrderSeed = uint64(r.Choose(1<<16, "c04t.orderseed"))
	defer func() { r.OrderPolicy, r.OrderSeed = simrt.OrderAsc, 0 }()
	var src strings.Builder
	src.WriteString("Decl tev(A) temporal.\nDecl link(A, B) temporal.\n")
	n := 1 + r.Choose(3, "c04t.nfacts")
	for i := 0; i < n; i++ {
		lo := int64(r.Choose(20, "c04t.lo"))
		fmt.Fprintf(&src, "tev(/k%d)%s.\n", 1+r.Choose(3, "c04t.key"), c14Iv{lo, lo + int64(r.Choose(9, "c04t.len"))}.ann())
	}
	fmt.Fprintf(&src, "link(/k1, /k2)%s.\nlink(/k2, /k3)%s.\npl(/k1, 1).\npl(/k2, 2).\n", c14Iv{0, 30}.ann(), c14Iv{5, 25}.ann())
	// body: which interval variables does it bind?
	bodyBound := map[string]bool{"X": true}
	var body string
	recursive := false
	switch r.Choose(8, "c04t.body") {
	case 6: // a plain atom with a wildcard: no interval variable gets a value
		body = "pl(X, _)"
	case 5: // a wildcard among the arguments (it is replaced by a fresh variable internally)
		body = "link(X, _)@[S, E]"
		bodyBound["S"], bodyBound["E"] = true, true
	case 0:
		body = "tev(X)@[S, E]"
		bodyBound["S"], bodyBound["E"] = true, true
	case 1:
		body = "tev(X)@[S, _]"
		bodyBound["S"] = true
	case 2:
		body = "tev(X)@[_, E]"
		bodyBound["E"] = true
	case 3:
		body = "<-[0s, 40s] tev(X)"
	case 4:
		body = "tev(X)@[S, _], tev(X)@[_, E]"
		bodyBound["S"], bodyBound["E"] = true, true
	default: // a recursive temporal rule next to its exit rule
		recursive = true
		body = "th(Y)@[S, _], link(Y, X)@[_, E2]"
		bodyBound["S"], bodyBound["E2"] = true, true
	}
	bound := func(k int, label string) (string, string) {
		// returns the text of a head bound and the variable it needs ("" if none)
		switch r.Choose(8, label) {
		case 7:
			// a variable nothing binds, spelled like the variables that replace wildcards
			return "X" + fmt.Sprint(k-1), "X" + fmt.Sprint(k-1)
		case 0:
			return "S", "S"
		case 1:
			return "E", "E"
		case 2:
			return "E2", "E2"
		case 3:
			return "F" + fmt.Sprint(k), "F" + fmt.Sprint(k) // a variable nothing binds
		case 4:
			return "_", ""
		case 5:
			return "now", ""
		default:
			return c14TS(int64(10 * k)), ""
		}
	}
	a, va := bound(1, "c04t.head.start")
	b, vb := bound(2, "c04t.head.end")
	headAnn := "@[" + a + ", " + b + "]"
	if r.OneIn(5, "c04t.head.point") {
		headAnn, vb = "@["+a+"]", ""
	}
	if recursive {
		src.WriteString("th(X)@[S, E] :- tev(X)@[S, E].\n")
	}
	rule := fmt.Sprintf("th(X)%s :- %s.", headAnn, body)
	src.WriteString(rule + "\n")
	unsafe := ""
	for _, v := range []string{va, vb} {
		if v != "" && !bodyBound[v] {
			unsafe = fmt.Sprintf("variable %s of the head annotation cannot receive a value", v)
		}
	}
	text := src.String()
	r.Logf("temporal clause (unsafe: %q):\n%s", unsafe, text)
	var stage string
	var evalErr error
	var stored []string
	panicked, msg := Guard(func() {
		pi, err, st := ParseAnalyze(text, nil)
		if err != nil {
			stage, evalErr = st, err
			return
		}
		store := factstore.NewSimpleInMemoryStore()
		ts := factstore.NewTemporalStore()
		if err := engine.EvalProgram(pi, store, engine.WithTemporalStore(ts), engine.WithEvaluationTime(c14Base.Add(20*time.Second))); err != nil {
			stage, evalErr = "eval", err
			return
		}
		for _, p := range ts.ListPredicates() {
			ts.GetAllFacts(ast.NewQuery(p), func(tf factstore.TemporalFact) error {
				if _, err := FromAtom(tf.Atom); err != nil {
					stage, evalErr = "dump", fmt.Errorf("%v: %v", tf.Atom, err)
				}
				if _, err := fromInterval(tf.Interval); err != nil {
					stage, evalErr = "dump", fmt.Errorf("%v%v: %v", tf.Atom, tf.Interval, err)
				}
				stored = append(stored, tf.Atom.String()+tf.Interval.String())
				return nil
			})
		}
		if _, err := DumpStore(store, nil); err != nil {
			stage, evalErr = "dump", err
		}
	})
	ctx := "program:\n" + text
	if panicked {
		return Violation("C04/panic", "panic: %s\n%s", msg, ctx)
	}
	switch stage {
	case "parse":
		return Violation("C04/generator", "generated temporal clause does not parse: %v\n%s", evalErr, text)
	case "analysis":
		if unsafe != "" {
			r.Probe("unsafe-temporal-head-rejected")
		}
		return Outcome{Nontrivial: unsafe != "", Sample: map[string]any{"verdict": "rejected", "unsafe": unsafe, "clause": rule, "error": firstLine(evalErr.Error())}}
	}
	if unsafe != "" {
		return Violation("C04/unsafe-accepted", "analysis accepts a clause that is unsafe by the statement's definition: %s\nclause: %s\n%s", unsafe, rule, ctx)
	}
	if stage == "dump" {
		return Violation("C04/non-ground-fact", "a non-ground or malformed fact was stored: %v\n%s", evalErr, ctx)
	}
	if stage == "eval" && strings.Contains(evalErr.Error(), "invalid temporal interval") {
		// the data make the resolved interval end before it starts: an error of
		// the values, not of a variable without a value
		return Outcome{Discard: "interval-ends-before-start"}
	}
	if stage != "" {
		return Violation("C04/eval-error", "an accepted program fails during evaluation (%s): %v\n%s", stage, evalErr, ctx)
	}
	r.Probe("temporal-head-accepted")
	return Outcome{Nontrivial: len(stored) >= 2, Sample: map[string]any{"verdict": "accepted", "clause": rule, "temporal_facts": len(stored)}}
}
