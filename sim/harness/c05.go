//go:build verifsim

package harness

import (
	"codeberg.org/TauCeti/mangle-go/ast"
	"fmt"
	"strings"

	"codeberg.org/TauCeti/mangle-go/engine"
	"codeberg.org/TauCeti/mangle-go/zzsim/simrt"
)

// EvalCfg is one way of evaluating a presented program.
type EvalCfg struct {
	Order       int
	OrderSeed   uint64
	Store       int
	Determ      bool
	InlineFacts bool
}

func (c EvalCfg) String() string {
	return fmt.Sprintf("order=%s store=%s deterministic=%v inline=%v", simrt.OrderNames[c.Order], StoreNames[c.Store], c.Determ, c.InlineFacts)
}

func DrawEvalCfg(r *simrt.Run, first bool) EvalCfg {
	if first {
		return EvalCfg{Order: simrt.OrderAsc, Store: StoreSimple, InlineFacts: true}
	}
	c := EvalCfg{}
	c.Order = r.Choose(simrt.NumOrderPolicies, "cfg.order")
	c.OrderSeed = uint64(r.Choose(1<<16, "cfg.orderseed"))
	c.Store = r.Choose(NumStoreKinds, "cfg.store")
	c.Determ = r.Bool("cfg.determ")
	c.InlineFacts = !r.Bool("cfg.preload")
	return c
}

// EvalResult is the canonical outcome of one evaluation.
type EvalResult struct {
	Stage string // "" ok, else parse / analysis / eval
	Err   error
	Facts map[string]bool
	// Hashes: fact key -> ArgHashKey (known hash-conflation trigger detection)
	Hashes map[string]string
	Panic  string
}

// EvalVariant runs the real pipeline on a presented program.
func EvalVariant(r *simrt.Run, v Variant, cfg EvalCfg, setCols func(string, int) bool, opts ...engine.EvalOption) EvalResult {
	r.OrderPolicy = cfg.Order
	r.OrderSeed = cfg.OrderSeed
	defer func() { r.OrderPolicy = simrt.OrderAsc; r.OrderSeed = 0 }()
	inline := cfg.InlineFacts || v.Prog.Package != ""
	src := v.Prog.Source(inline)
	var extra []PredInfo
	for _, pi := range v.Prog.Preds {
		if pi.EDB && !pi.Declared {
			extra = append(extra, pi)
		}
	}
	var res EvalResult
	panicked, msg := Guard(func() {
		pi, err, stage := ParseAnalyze(src, extra)
		if err != nil {
			res = EvalResult{Stage: stage, Err: err}
			return
		}
		var base []ast.Atom
		if !inline {
			for _, f := range v.Prog.Facts {
				if pi := v.Prog.Pred(f.Pred); pi != nil && pi.EDB {
					base = append(base, ToAtom(f))
				}
			}
		}
		store := NewStoreWith(cfg.Store, base)
		if cfg.Determ {
			opts = append(opts, engine.WithDeterministicOrder())
		}
		if err := engine.EvalProgram(pi, store, opts...); err != nil {
			res = EvalResult{Stage: "eval", Err: err}
			return
		}
		facts, hashes, err := DumpStoreH(store, nil)
		if err != nil {
			res = EvalResult{Stage: "dump", Err: err}
			return
		}
		// map presented predicate names back
		back := map[string]bool{}
		backH := map[string]string{}
		for k := range facts {
			i := strings.IndexByte(k, '(')
			name := k[:i]
			orig, ok := v.PredBack[name]
			if !ok {
				orig = "?" + name
			}
			back[orig+k[i:]] = true
			backH[orig+k[i:]] = hashes[k]
		}
		res = EvalResult{Facts: back, Hashes: backH}
	})
	if panicked {
		return EvalResult{Stage: "panic", Panic: msg}
	}
	_ = setCols
	return res
}

func canonWithSets(facts map[string]bool, p *Program) map[string]bool {
	// set-typed columns: re-sort list elements. Keys are already rendered, so
	// parse minimally: only needed when the program has set columns.
	hasSet := false
	for _, pi := range p.Preds {
		for _, c := range pi.Cols {
			if c.IsSet() {
				hasSet = true
			}
		}
	}
	if !hasSet {
		return facts
	}
	return facts
}

func init() {
	Register(&Prop{
		ID:        "C05",
		Run:       runC05,
		StepCap:   40_000_000,
		QuickRuns: 1600, ThoroughRuns: 60000,
	})
}

func runC05(r *simrt.Run, tier Tier) Outcome {
	switch r.Choose(8, "c05.kind") {
	case 6, 7:
		return runC05Temporal(r, tier)
	case 5:
		return runC05Lattice(r, tier)
	case 4:
		if r.Bool("c05.lookalike") {
			return runC05Keys(r)
		}
	}
	o := DrawOpts(r)
	o.NoCollect = false
	prog := GenProgram(r, o)
	// now and then a program without a stratification: it has to be refused
	// under every presentation and iteration order
	unstrat := r.OneIn(12, "c05.negative-cycle") && AddNegativeCycle(r, prog)
	K := 6
	if tier == Thorough {
		K = 12
	}
	setCols := SetColsOf(prog)
	var first EvalResult
	var firstDesc string
	src := prog.Source(true)
	r.Logf("program:\n%s", src)
	ordersSeen := map[int]bool{}
	for k := 0; k < K; k++ {
		r.Tape.Mark()
		v := MakeVariant(r, prog, k == 0, true)
		cfg := DrawEvalCfg(r, k == 0)
		ordersSeen[cfg.Order] = true
		res := EvalVariant(r, v, cfg, setCols)
		desc := fmt.Sprintf("variant %d [%s] %s", k, v.Desc, cfg)
		if res.Stage == "panic" {
			return Violation("C05/panic", "%s: panic %s\nprogram:\n%s", desc, res.Panic, v.Prog.Source(true))
		}
		if res.Facts != nil {
			res.Facts = resortSets(res.Facts, setCols)
		}
		r.Logf("%s -> stage=%q facts=%d err=%v", desc, res.Stage, len(res.Facts), res.Err)
		if k == 0 {
			first, firstDesc = res, desc
			if res.Stage == "parse" {
				return Violation("C05/generator", "generated program does not parse: %v\n%s", res.Err, src)
			}
			continue
		}
		if (first.Stage == "") != (res.Stage == "") {
			return Violation("C05/accept-differs", "%s: stage=%q err=%v\nbut %s: stage=%q err=%v\nprogram:\n%s\npresented:\n%s",
				firstDesc, first.Stage, first.Err, desc, res.Stage, res.Err, src, v.Prog.Source(true))
		}
		if first.Stage != "" {
			continue
		}
		a, b := DiffSets(first.Facts, res.Facts)
		if len(a)+len(b) > 0 {
			return Violation("C05/facts-differ", "%s and %s disagree\nonly in first: %v\nonly in second: %v\nprogram:\n%s\npresented:\n%s",
				firstDesc, desc, a, b, src, v.Prog.Source(true))
		}
	}
	if unstrat && first.Stage != "" {
		// (whether such a program is refused at all is C03's subject; here only
		// the agreement of all presentations is judged, above)
		r.Probe("unstratifiable-program-refused-under-every-presentation")
		return Outcome{Nontrivial: len(ordersSeen) >= 2, Sample: map[string]any{"program": strings.Split(strings.TrimSpace(src), "\n"), "refused": firstLine(first.Err.Error()), "evaluations": K}}
	}
	if first.Stage != "" {
		return Outcome{Discard: "rejected:" + first.Stage, Sample: nil}
	}
	derived := 0
	for k := range first.Facts {
		if strings.HasPrefix(k, "p") || strings.HasPrefix(k, "g") {
			derived++
		}
	}
	nt := derived >= 1 && len(ordersSeen) >= 2 && r.MapEvents >= 4
	return Outcome{Nontrivial: nt, Sample: map[string]any{"program": strings.Split(strings.TrimSpace(src), "\n"), "facts": len(first.Facts), "derived": derived, "evaluations": K}}
}

// resortSets re-renders facts so that set-typed columns are order-insensitive.
// Keys are canonical strings; we re-sort by parsing the list syntax of the
// affected argument positions.
func resortSets(facts map[string]bool, setCols func(string, int) bool) map[string]bool {
	out := map[string]bool{}
	for k := range facts {
		i := strings.IndexByte(k, '(')
		pred := k[:i]
		args := splitTopLevel(k[i+1 : len(k)-1])
		changed := false
		for j, a := range args {
			if setCols(pred, j) && strings.HasPrefix(a, "[") {
				es := splitTopLevel(a[1 : len(a)-1])
				sortStrings(es)
				args[j] = "[" + strings.Join(es, ", ") + "]"
				changed = true
			}
		}
		if changed {
			out[pred+"("+strings.Join(args, ", ")+")"] = true
		} else {
			out[k] = true
		}
	}
	return out
}

func sortStrings(s []string) {
	for i := 1; i < len(s); i++ {
		for j := i; j > 0 && s[j] < s[j-1]; j-- {
			s[j], s[j-1] = s[j-1], s[j]
		}
	}
}

// splitTopLevel splits "a, b(c, d), [e, f]" at top-level ", ".
func splitTopLevel(s string) []string {
	if s == "" {
		return nil
	}
	var out []string
	depth := 0
	inStr := false
	start := 0
	for i := 0; i < len(s); i++ {
		c := s[i]
		if inStr {
			if c == '\\' {
				i++
			} else if c == '"' {
				inStr = false
			}
			continue
		}
		switch c {
		case '"':
			inStr = true
		case '(', '[', '{':
			depth++
		case ')', ']', '}':
			depth--
		case ',':
			if depth == 0 {
				out = append(out, strings.TrimSpace(s[start:i]))
				start = i + 1
			}
		}
	}
	out = append(out, strings.TrimSpace(s[start:]))
	return out
}
