//go:build verifsim

package harness

import (
	"fmt"
	"runtime/debug"
	"strings"

	"codeberg.org/TauCeti/mangle-go/ast"
	"codeberg.org/TauCeti/mangle-go/engine"
	"codeberg.org/TauCeti/mangle-go/factstore"
	"codeberg.org/TauCeti/mangle-go/zzsim/simrt"
)

func init() {
	Register(&Prop{ID: "C17", Run: runC17, StepCap: 60_000_000, StepLimitIsViolation: true, Probes: []Probe{{
		Key:  "list-growth-false-fixpoint",
		Desc: "dlist([]). dlist(fn:list:cons(1, L)) :- dlist(L). has an infinite model, but lists of seven or more equal elements hash alike, the hash-keyed stores treat the new list as present and evaluation ends without error",
		Run: func(r *simrt.Run) Outcome {
			src := "dseed(1).\ndlist([]) :- dseed(X) .\ndlist(Y) :- dlist(L), dseed(X), Y = fn:list:cons(X, L) .\n"
			pi, err, _ := ParseAnalyze(src, nil)
			if err != nil {
				return Violation("C17/generator", "probe program rejected: %v", err)
			}
			store := factstore.NewSimpleInMemoryStore()
			if err := engine.EvalProgram(pi, store, engine.WithCreatedFactLimit(12)); err == nil {
				return Violation("C17/silent-partial", "list-growth program with an infinite model evaluated with limit 12 returned without error, store has %d facts", store.EstimateFactCount())
			}
			return Outcome{}
		}}}})
}

// countingStore counts the facts created through it (seam: FactStore interface).
type countingStore struct {
	factstore.FactStore
	created *int
	budget  int
}

type budgetExceeded struct{ n int }

func (c countingStore) Add(a ast.Atom) bool {
	ok := c.FactStore.Add(a)
	if ok {
		*c.created++
		if *c.created > c.budget {
			panic(budgetExceeded{*c.created})
		}
	}
	return ok
}

// countingRemovableStore is countingStore over a store that can also remove
// facts; the engine replaces facts of lattice predicates only when the store
// it is given offers Remove, so the wrapper must not hide it.
type countingRemovableStore struct {
	countingStore
	rm factstore.FactStoreWithRemove
}

func (c countingRemovableStore) Remove(a ast.Atom) bool { return c.rm.Remove(a) }

func newCountingStore(inner factstore.FactStore, created *int, budget int) factstore.FactStore {
	cs := countingStore{FactStore: inner, created: created, budget: budget}
	if rm, ok := inner.(factstore.FactStoreWithRemove); ok {
		return countingRemovableStore{cs, rm}
	}
	return cs
}

// divergingTemplates: programs whose least model is infinite.
func addDivergingTemplate(r *simrt.Run, p *Program) string {
	k := r.Choose(4, "c17.template")
	switch k {
	case 0: // counter
		p.Preds = append(p.Preds, PredInfo{Name: "dcnt", Cols: []Ty{TInt}, Group: 1000})
		p.Facts = append(p.Facts, Fact{Pred: "dseed", Args: []Val{IntV(0)}})
		p.Preds = append(p.Preds, PredInfo{Name: "dseed", Cols: []Ty{TInt}, EDB: true, Group: -1, Declared: true})
		p.Rules = append(p.Rules,
			Rule{Head: "dcnt", HArgs: []Expr{V("X")}, Body: []Lit{{K: LAtom, Pred: "dseed", Args: []Expr{V("X")}}}},
			Rule{Head: "dcnt", HArgs: []Expr{V("Y")}, Body: []Lit{{K: LAtom, Pred: "dcnt", Args: []Expr{V("X")}}, {K: LEq, Args: []Expr{V("Y"), Fn("fn:plus", V("X"), C(IntV(1)))}}}})
		return "counter via fn:plus"
	case 1: // list growth
		p.Preds = append(p.Preds, PredInfo{Name: "dlist", Cols: []Ty{TListInt}, Group: 1000})
		p.Preds = append(p.Preds, PredInfo{Name: "dseed", Cols: []Ty{TInt}, EDB: true, Group: -1, Declared: true})
		p.Facts = append(p.Facts, Fact{Pred: "dseed", Args: []Val{IntV(1)}})
		p.Rules = append(p.Rules,
			Rule{Head: "dlist", HArgs: []Expr{C(ListV())}, Body: []Lit{{K: LAtom, Pred: "dseed", Args: []Expr{V("X")}}}},
			Rule{Head: "dlist", HArgs: []Expr{V("Y")}, Body: []Lit{{K: LAtom, Pred: "dlist", Args: []Expr{V("L")}}, {K: LAtom, Pred: "dseed", Args: []Expr{V("X")}}, {K: LEq, Args: []Expr{V("Y"), Fn("fn:list:cons", V("X"), V("L"))}}}})
		return "list growth via fn:list:cons"
	case 2: // pair nesting
		p.Preds = append(p.Preds, PredInfo{Name: "dpair", Cols: []Ty{TName}, Group: 1000})
		p.Preds = append(p.Preds, PredInfo{Name: "dseed", Cols: []Ty{TName}, EDB: true, Group: -1, Declared: true})
		p.Facts = append(p.Facts, Fact{Pred: "dseed", Args: []Val{NameV("/z")}})
		p.Rules = append(p.Rules,
			Rule{Head: "dpair", HArgs: []Expr{V("X")}, Body: []Lit{{K: LAtom, Pred: "dseed", Args: []Expr{V("X")}}}},
			Rule{Head: "dpair", HArgs: []Expr{V("Y")}, Body: []Lit{{K: LAtom, Pred: "dpair", Args: []Expr{V("X")}}, {K: LEq, Args: []Expr{V("Y"), Fn("fn:pair", V("X"), C(NameV("/z")))}}}})
		return "pair nesting via fn:pair"
	default: // two mutually recursive counters (doubling + increment)
		p.Preds = append(p.Preds, PredInfo{Name: "da", Cols: []Ty{TInt}, Group: 1000}, PredInfo{Name: "db", Cols: []Ty{TInt}, Group: 1000})
		p.Preds = append(p.Preds, PredInfo{Name: "dseed", Cols: []Ty{TInt}, EDB: true, Group: -1, Declared: true})
		p.Facts = append(p.Facts, Fact{Pred: "dseed", Args: []Val{IntV(1)}})
		p.Rules = append(p.Rules,
			Rule{Head: "da", HArgs: []Expr{V("X")}, Body: []Lit{{K: LAtom, Pred: "dseed", Args: []Expr{V("X")}}}},
			Rule{Head: "db", HArgs: []Expr{V("Y")}, Body: []Lit{{K: LAtom, Pred: "da", Args: []Expr{V("X")}}, {K: LEq, Args: []Expr{V("Y"), Fn("fn:mult", V("X"), C(IntV(2)))}}}},
			Rule{Head: "da", HArgs: []Expr{V("Y")}, Body: []Lit{{K: LAtom, Pred: "db", Args: []Expr{V("X")}}, {K: LEq, Args: []Expr{V("Y"), Fn("fn:plus", V("X"), C(IntV(1)))}}}})
		return "mutually recursive arithmetic"
	}
}

func runC17(r *simrt.Run, tier Tier) Outcome {
	if r.Choose(4, "c17.lattice") == 3 {
		return runC17Lattice(r, tier)
	}
	o := DrawOpts(r)
	prog := GenProgram(r, o)
	diverges := r.Bool("c17.diverge")
	tmpl := ""
	if diverges {
		tmpl = addDivergingTemplate(r, prog)
	}
	src := prog.Source(true)
	r.Logf("program (diverges=%v %s):\n%s", diverges, tmpl, src)
	capF := 600
	if diverges {
		capF = 120
	}
	ref := RefEval(prog, capF)
	if ref.Err != "" {
		return Violation("C17/generator", "reference evaluator rejects the generated program: %s\n%s", ref.Err, src)
	}
	if ref.Diverged != diverges {
		if !diverges {
			return Outcome{Discard: "reference-model-too-large"}
		}
		return Violation("C17/generator", "diverging template does not diverge in the reference evaluator\n%s", src)
	}
	setCols := SetColsOf(prog)
	var want map[string]bool
	var wantH map[string]string
	if !diverges {
		want, wantH = refKeys(ref, setCols)
		_ = wantH
	}
	cfg := drawStoreCfg(r)
	cfg.InlineFacts = true
	// an (empty) temporal store may be configured as well, as the interpreter does
	withTemporal := r.Bool("c17.temporalstore")
	nDo := 0
	for _, rule := range prog.Rules {
		if rule.Do != nil {
			nDo++
		}
	}
	lmax := 24
	if !diverges {
		lmax = len(want) + 3
		if lmax > 64 {
			lmax = 64
		}
	}
	if tier == Thorough && diverges {
		lmax = 48
	}
	errs, oks := 0, 0
	var okLimits, errLimits []int
	for L := 1; L <= lmax; L++ {
		budget := (nDo + 1) * (len(prog.Facts) + 8*(len(prog.Rules)+2)*(L+1))
		created := 0
		var evalErr error
		var facts map[string]bool
		var hashes map[string]string
		var stage string
		r.OrderPolicy, r.OrderSeed = cfg.Order, cfg.OrderSeed
		var over *budgetExceeded
		panicked, msg := func() (p bool, m string) {
			defer func() {
				if x := recover(); x != nil {
					switch v := x.(type) {
					case budgetExceeded:
						over = &v
					case simrt.StepLimit:
						panic(x)
					default:
						p, m = true, fmt.Sprintf("%v\n%s", x, trimStack(string(debug.Stack())))
					}
				}
			}()
			pi, err, st := ParseAnalyze(src, nil)
			if err != nil {
				evalErr, stage = err, st
				return
			}
			inner := NewStore(cfg.Store)
			store := newCountingStore(inner, &created, budget)
			opts := []engine.EvalOption{engine.WithCreatedFactLimit(L)}
			if withTemporal {
				opts = append(opts, engine.WithTemporalStore(factstore.NewTemporalStore()))
			}
			if cfg.Determ {
				opts = append(opts, engine.WithDeterministicOrder())
			}
			if err := engine.EvalProgram(pi, store, opts...); err != nil {
				evalErr, stage = err, "eval"
				return
			}
			facts, hashes, evalErr = DumpStoreH(inner, nil)
			return
		}()
		r.OrderPolicy, r.OrderSeed = simrt.OrderAsc, 0
		ctx := fmt.Sprintf("limit=%d %s temporal-store-configured=%v\nprogram (%s):\n%s", L, cfg, withTemporal, map[bool]string{true: "infinite model: " + tmpl, false: "finite model"}[diverges], src)
		_ = hashes
		if over != nil {
			return Violation("C17/unbounded-creation", "evaluation created %d facts, more than the bound %d for this limit and program size\n%s", over.n, budget, ctx)
		}
		if panicked {
			return Violation("C17/panic", "panic: %s\n%s", msg, ctx)
		}
		if stage == "parse" {
			return Violation("C17/generator", "generated program does not parse: %v\n%s", evalErr, src)
		}
		if stage == "analysis" {
			return Outcome{Discard: "rejected:analysis"}
		}
		if evalErr != nil {
			errs++
			errLimits = append(errLimits, L)
			r.Fault("fact-limit-abort")
			continue
		}
		oks++
		okLimits = append(okLimits, L)
		if diverges {
			return Violation("C17/silent-partial", "evaluation of a program with an infinite model returned without error (store has %d facts)\n%s", len(facts), ctx)
		}
		got := resortSets(facts, setCols)
		missing, extra := DiffSets(want, got)
		if len(missing)+len(extra) > 0 {
			cls := "C17/silent-partial"
			if len(missing) == 0 {
				cls = "C17/extra-fact"
			}
			return Violation(cls, "evaluation returned without error but the store is not the complete model\nmissing: %v\nextra: %v\n%s", missing, extra, ctx)
		}
	}
	r.Logf("limits with error: %v; without: %v", errLimits, okLimits)
	if errs > 0 && oks > 0 {
		r.Probe("both-outcomes-for-one-program")
	}
	return Outcome{Nontrivial: errs >= 1, Sample: map[string]any{"program": strings.Split(strings.TrimSpace(src), "\n"), "diverges": diverges, "limits_tried": lmax, "limits_with_error": len(errLimits), "limits_complete": len(okLimits)}}
}
