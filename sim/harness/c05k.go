//go:build verifsim

package harness

import (
	"fmt"
	"strings"

	"codeberg.org/TauCeti/mangle-go/engine"
	"codeberg.org/TauCeti/mangle-go/zzsim/simrt"
)

// runC05Keys is the "look-alike constants" sub-workload of C05: facts whose
// columns hold constants of different kinds with equal hash codes (/a and
// "/a", 0 and 0.0 and []), and rules that select on such a constant - in a
// plain premise, a negated premise and the single premise of an aggregating
// rule (whose scan result is reduced as it comes from the store). One program,
// every store kind, a drawn map order each: all fact sets must be equal.
func runC05Keys(r *simrt.Run) Outcome {
	defer func() { r.OrderPolicy, r.OrderSeed = simrt.OrderAsc, 0 }()
	pool := []Val{NameV("/a"), StrV("/a"), IntV(0), FloatV(0), ListV(), NameV("/b"), StrV("/b"), IntV(5), StrV("5")}
	var sb strings.Builder
	seen := map[string]bool{}
	nf := 3 + r.Choose(10, "c05k.nfacts")
	for i := 0; i < nf; i++ {
		a, b := pool[r.Choose(len(pool), "c05k.a")], pool[r.Choose(len(pool), "c05k.b")]
		line := fmt.Sprintf("item(%s, %s, %d).\n", a.Src(), b.Src(), 1+r.Choose(4, "c05k.n"))
		if !seen[line] {
			seen[line] = true
			sb.WriteString(line)
		}
	}
	nr := 1 + r.Choose(4, "c05k.nrules")
	for k := 0; k < nr; k++ {
		c := pool[r.Choose(len(pool), "c05k.const")].Src()
		atom := fmt.Sprintf("item(%s, Y, N)", c)
		if r.Bool("c05k.second") {
			atom = fmt.Sprintf("item(Y, %s, N)", c)
		}
		switch r.Choose(4, "c05k.shape") {
		case 0:
			fmt.Fprintf(&sb, "total%d(S) :- %s |> do fn:group_by(), let S = fn:sum(N).\n", k, atom)
		case 1:
			fmt.Fprintf(&sb, "num%d(Y, C) :- %s |> do fn:group_by(Y), let C = fn:count().\n", k, atom)
		case 2:
			fmt.Fprintf(&sb, "sel%d(Y, N) :- %s.\n", k, atom)
		default:
			fmt.Fprintf(&sb, "other%d(A) :- item(A, B, M), !%s.\n", k, strings.Replace(strings.Replace(atom, "Y", "A", 1), "N)", "M)", 1))
		}
	}
	text := sb.String()
	r.Logf("program:\n%s", text)
	var first map[string]bool
	firstDesc := ""
	for kind := 0; kind < NumStoreKinds; kind++ {
		r.OrderPolicy = r.Choose(simrt.NumOrderPolicies, "c05k.order")
		r.OrderSeed = uint64(r.Choose(1<<16, "c05k.orderseed"))
		desc := fmt.Sprintf("store=%s order=%s/%d", StoreNames[kind], simrt.OrderNames[r.OrderPolicy], r.OrderSeed)
		pi, err, st := ParseAnalyze(text, nil)
		if err != nil {
			if st == "parse" {
				return Violation("C05/generator", "look-alike program does not parse: %v\n%s", err, text)
			}
			return Outcome{Discard: "rejected:" + st}
		}
		store := NewStore(kind)
		var evalErr error
		panicked, msg := Guard(func() { evalErr = engine.EvalProgram(pi, store) })
		if panicked {
			return Violation("C05/panic", "panic (%s): %s\n%s", desc, msg, text)
		}
		if evalErr != nil {
			return Violation("C05/accept-differs", "evaluation fails (%s): %v\n%s", desc, evalErr, text)
		}
		facts, err := DumpStore(store, nil)
		if err != nil {
			return Violation("C05/generator", "dump: %v", err)
		}
		if first == nil {
			first, firstDesc = facts, desc
			continue
		}
		if a, b := DiffSets(first, facts); len(a)+len(b) > 0 {
			return Violation("C05/facts-differ", "one program, two stores:\nonly with %s: %v\nonly with %s: %v\n%s", firstDesc, a, desc, b, text)
		}
	}
	r.Probe("look-alike-constants-across-store-kinds")
	return Outcome{Nontrivial: len(first) > nf}
}
