//go:build verifsim

package harness

import (
	"fmt"
	"sort"
	"strings"
)

// Reference evaluator: stratified naive fixpoint over the generator's IR. It
// shares no code with mangle's engine, analysis or ast packages. It is slow
// and meant to be obviously right.

type RefResult struct {
	Facts    map[string]Fact
	Diverged bool   // fact cap reached
	Err      string // the program is outside the reference fragment / ill-formed
	Rounds   int
	// SameRoundJoin: some rule instance joined two facts that were both first
	// derived in the same round >= 2 (probe for the semi-naive delta bug)
	SameRoundJoin bool
	// per-rule facts (index = rule index) for aggregation checks
	RuleFacts []map[string]Fact
}

type refErr struct{ msg string }

type binding map[string]Val

func (b binding) clone() binding {
	c := make(binding, len(b)+2)
	for k, v := range b {
		c[k] = v
	}
	return c
}

type refDB struct {
	byPred map[string][]Fact
	keys   map[string]bool
	round  map[string]int // key -> round first derived (0 = base)
}

func newRefDB() *refDB {
	return &refDB{byPred: map[string][]Fact{}, keys: map[string]bool{}, round: map[string]int{}}
}

func predKey(name string, arity int) string { return fmt.Sprintf("%s/%d", name, arity) }

func (db *refDB) add(f Fact, round int) bool {
	k := f.Key()
	if db.keys[k] {
		return false
	}
	db.keys[k] = true
	db.round[k] = round
	pk := predKey(f.Pred, len(f.Args))
	db.byPred[pk] = append(db.byPred[pk], f)
	return true
}

func refFail(format string, args ...any) { panic(refErr{fmt.Sprintf(format, args...)}) }

// evalExpr evaluates an expression under b; ok=false if a variable is unbound.
func evalExpr(e Expr, b binding) (Val, bool) {
	switch {
	case e.Var != "":
		if e.Var == "_" {
			return Val{}, false
		}
		v, ok := b[e.Var]
		return v, ok
	case e.C != nil:
		return *e.C, true
	}
	args := make([]Val, len(e.Args))
	for i, a := range e.Args {
		v, ok := evalExpr(a, b)
		if !ok {
			return Val{}, false
		}
		args[i] = v
	}
	return applyFn(e.Fn, args), true
}

func wantInt(fn string, v Val) int64 {
	if v.K != VInt {
		refFail("%s: expected a number, got %s", fn, v.Key())
	}
	return v.N
}

func applyFn(fn string, a []Val) Val {
	switch fn {
	case "fn:plus":
		var s int64
		for _, v := range a {
			s += wantInt(fn, v)
		}
		return IntV(s)
	case "fn:mult":
		s := int64(1)
		for _, v := range a {
			s *= wantInt(fn, v)
		}
		return IntV(s)
	case "fn:minus":
		if len(a) == 0 {
			refFail("fn:minus without arguments")
		}
		if len(a) == 1 {
			return IntV(-wantInt(fn, a[0]))
		}
		s := wantInt(fn, a[0])
		for _, v := range a[1:] {
			s -= wantInt(fn, v)
		}
		return IntV(s)
	case "fn:pair":
		if len(a) != 2 {
			refFail("fn:pair arity")
		}
		return PairV(a[0], a[1])
	case "fn:list":
		return ListV(a...)
	case "fn:list:cons":
		if len(a) != 2 || a[1].K != VList {
			refFail("fn:list:cons expects (elem, list)")
		}
		return ListV(append([]Val{a[0]}, a[1].Elems...)...)
	case "fn:list:len":
		if len(a) != 1 || a[0].K != VList {
			refFail("fn:list:len expects a list")
		}
		return IntV(int64(len(a[0].Elems)))
	case "fn:string:concat":
		var sb strings.Builder
		for _, v := range a {
			switch v.K {
			case VStr:
				sb.WriteString(v.S)
			default:
				refFail("fn:string:concat: reference fragment only concatenates strings")
			}
		}
		return StrV(sb.String())
	case "fn:number:to_string":
		return StrV(fmt.Sprint(wantInt(fn, a[0])))
	}
	refFail("function %s is outside the reference fragment", fn)
	return Val{}
}

// unify matches expression e (var / const / wildcard) against v.
func unify(e Expr, v Val, b binding) bool {
	switch {
	case e.Var == "_":
		return true
	case e.Var != "":
		if cur, ok := b[e.Var]; ok {
			return EqualVal(cur, v)
		}
		b[e.Var] = v
		return true
	case e.C != nil:
		return EqualVal(*e.C, v)
	default:
		w, ok := evalExpr(e, b)
		if !ok {
			refFail("function expression with unbound variable inside an atom: %s", e.Src())
		}
		return EqualVal(w, v)
	}
}

type ruleStats struct {
	sameRound *bool
	curRound  int
}

// solve enumerates the solutions of body[i:] extending b.
func solve(db *refDB, body []Lit, i int, b binding, used []string, st *ruleStats, out func(binding, []string)) {
	if i == len(body) {
		out(b, used)
		return
	}
	l := body[i]
	switch l.K {
	case LAtom:
		for _, f := range db.byPred[predKey(l.Pred, len(l.Args))] {
			nb := b.clone()
			ok := true
			for j, a := range l.Args {
				if !unify(a, f.Args[j], nb) {
					ok = false
					break
				}
			}
			if ok {
				solve(db, body, i+1, nb, append(used, f.Key()), st, out)
			}
		}
	case LNeg:
		for _, a := range l.Args {
			if a.Var != "" && a.Var != "_" {
				if _, ok := b[a.Var]; !ok {
					refFail("negated atom %s with unbound variable %s", l.Src(), a.Var)
				}
			}
		}
		found := false
		for _, f := range db.byPred[predKey(l.Pred, len(l.Args))] {
			nb := b.clone()
			ok := true
			for j, a := range l.Args {
				if !unify(a, f.Args[j], nb) {
					ok = false
					break
				}
			}
			if ok {
				found = true
				break
			}
		}
		if !found {
			solve(db, body, i+1, b, used, st, out)
		}
	case LEq:
		lv, lok := evalExpr(l.Args[0], b)
		rv, rok := evalExpr(l.Args[1], b)
		switch {
		case lok && rok:
			if EqualVal(lv, rv) {
				solve(db, body, i+1, b, used, st, out)
			}
		case rok && l.Args[0].Var != "" && l.Args[0].Var != "_":
			nb := b.clone()
			nb[l.Args[0].Var] = rv
			solve(db, body, i+1, nb, used, st, out)
		case lok && l.Args[1].Var != "" && l.Args[1].Var != "_":
			nb := b.clone()
			nb[l.Args[1].Var] = lv
			solve(db, body, i+1, nb, used, st, out)
		default:
			refFail("equality %s with both sides unbound", l.Src())
		}
	case LNeq:
		lv, lok := evalExpr(l.Args[0], b)
		rv, rok := evalExpr(l.Args[1], b)
		if !lok || !rok {
			refFail("inequality %s with an unbound side", l.Src())
		}
		if !EqualVal(lv, rv) {
			solve(db, body, i+1, b, used, st, out)
		}
	case LLt, LLe, LGt, LGe:
		lv, lok := evalExpr(l.Args[0], b)
		rv, rok := evalExpr(l.Args[1], b)
		if !lok || !rok {
			refFail("comparison %s with an unbound side", l.Src())
		}
		x, y := wantInt(l.Src(), lv), wantInt(l.Src(), rv)
		ok := false
		switch l.K {
		case LLt:
			ok = x < y
		case LLe:
			ok = x <= y
		case LGt:
			ok = x > y
		case LGe:
			ok = x >= y
		}
		if ok {
			solve(db, body, i+1, b, used, st, out)
		}
	case LBuiltin:
		solveBuiltin(db, body, i, b, used, st, out)
	}
}

func solveBuiltin(db *refDB, body []Lit, i int, b binding, used []string, st *ruleStats, out func(binding, []string)) {
	l := body[i]
	next := func(nb binding) { solve(db, body, i+1, nb, used, st, out) }
	bound := func(e Expr) Val {
		v, ok := evalExpr(e, b)
		if !ok {
			refFail("builtin %s: argument %s must be bound", l.Src(), e.Src())
		}
		return v
	}
	switch l.Pred {
	case ":match_pair":
		p := bound(l.Args[0])
		if p.K != VPair {
			return
		}
		nb := b.clone()
		if unify(l.Args[1], p.Elems[0], nb) && unify(l.Args[2], p.Elems[1], nb) {
			next(nb)
		}
	case ":match_cons":
		p := bound(l.Args[0])
		if p.K != VList || len(p.Elems) == 0 {
			return
		}
		nb := b.clone()
		if unify(l.Args[1], p.Elems[0], nb) && unify(l.Args[2], ListV(p.Elems[1:]...), nb) {
			next(nb)
		}
	case ":match_nil":
		p := bound(l.Args[0])
		if p.K == VList && len(p.Elems) == 0 {
			next(b)
		}
	case ":list:member":
		lst := bound(l.Args[1])
		if lst.K != VList {
			return
		}
		if v, ok := evalExpr(l.Args[0], b); ok {
			for _, e := range lst.Elems {
				if EqualVal(e, v) {
					next(b)
					return
				}
			}
			return
		}
		seen := map[string]bool{}
		for _, e := range lst.Elems {
			if seen[e.Key()] {
				continue // the same solution, not a new one
			}
			seen[e.Key()] = true
			nb := b.clone()
			if unify(l.Args[0], e, nb) {
				next(nb)
			}
		}
	case ":string:starts_with", ":string:ends_with", ":string:contains":
		s, t := bound(l.Args[0]), bound(l.Args[1])
		if s.K != VStr || t.K != VStr {
			return
		}
		ok := false
		switch l.Pred {
		case ":string:starts_with":
			ok = strings.HasPrefix(s.S, t.S)
		case ":string:ends_with":
			ok = strings.HasSuffix(s.S, t.S)
		default:
			ok = strings.Contains(s.S, t.S)
		}
		if ok {
			next(b)
		}
	default:
		refFail("builtin %s is outside the reference fragment", l.Pred)
	}
}

// headFact instantiates the head.
func headFact(r Rule, b binding) Fact {
	f := Fact{Pred: r.Head}
	for _, a := range r.HArgs {
		v, ok := evalExpr(a, b)
		if !ok {
			refFail("head variable unbound in %s", r.Src())
		}
		f.Args = append(f.Args, v)
	}
	return f
}

// applyDo computes the facts of an aggregating rule from the solutions of its body.
func applyDo(r Rule, sols []binding) []Fact {
	// distinct assignments to the named variables of the body
	vars := map[string]bool{}
	for _, l := range r.Body {
		l.Vars(vars)
	}
	var names []string
	for v := range vars {
		names = append(names, v)
	}
	sort.Strings(names)
	seen := map[string]bool{}
	var distinct []binding
	for _, s := range sols {
		var sb strings.Builder
		for _, n := range names {
			v := s[n]
			sb.WriteString(v.Key())
			sb.WriteByte(0)
		}
		if !seen[sb.String()] {
			seen[sb.String()] = true
			distinct = append(distinct, s)
		}
	}
	groups := map[string][]binding{}
	var order []string
	for _, s := range distinct {
		var sb strings.Builder
		for _, k := range r.Do.Keys {
			v, ok := s[k]
			if !ok {
				refFail("group key %s unbound in %s", k, r.Src())
			}
			sb.WriteString(v.Key())
			sb.WriteByte(0)
		}
		g := sb.String()
		if _, ok := groups[g]; !ok {
			order = append(order, g)
		}
		groups[g] = append(groups[g], s)
	}
	var out []Fact
	for _, g := range order {
		rows := groups[g]
		b := binding{}
		for _, k := range r.Do.Keys {
			b[k] = rows[0][k]
		}
		for _, l := range r.Do.Lets {
			col := func() []Val {
				if len(l.E.Args) != 1 {
					refFail("reducer %s expects one argument", l.E.Src())
				}
				var vs []Val
				for _, row := range rows {
					v, ok := evalExpr(l.E.Args[0], row)
					if !ok {
						refFail("reducer argument unbound in %s", r.Src())
					}
					vs = append(vs, v)
				}
				return vs
			}
			switch l.E.Fn {
			case "fn:count":
				b[l.Var] = IntV(int64(len(rows)))
			case "fn:sum":
				var s int64
				for _, v := range col() {
					s += wantInt("fn:sum", v)
				}
				b[l.Var] = IntV(s)
			case "fn:min", "fn:max":
				vs := col()
				m := wantInt(l.E.Fn, vs[0])
				for _, v := range vs[1:] {
					x := wantInt(l.E.Fn, v)
					if (l.E.Fn == "fn:min" && x < m) || (l.E.Fn == "fn:max" && x > m) {
						m = x
					}
				}
				b[l.Var] = IntV(m)
			case "fn:avg":
				var s float64
				vs := col()
				for _, v := range vs {
					s += float64(wantInt("fn:avg", v))
				}
				b[l.Var] = FloatV(s / float64(len(vs)))
			case "fn:collect_distinct":
				seen := map[string]bool{}
				var es []Val
				for _, v := range col() {
					if !seen[v.Key()] {
						seen[v.Key()] = true
						es = append(es, v)
					}
				}
				sort.Slice(es, func(i, j int) bool { return es[i].Key() < es[j].Key() })
				b[l.Var] = ListV(es...)
			default:
				refFail("reducer %s is outside the reference fragment", l.E.Fn)
			}
		}
		out = append(out, headFact(r, b))
	}
	return out
}

// stratify returns the IDB predicates grouped into strata (own Tarjan SCC,
// dependencies first). ok=false if a negative/aggregating edge lies in a cycle.
func refStratify(p *Program) ([][]string, bool) {
	idb := map[string]bool{}
	for _, r := range p.Rules {
		idb[predKey(r.Head, len(r.HArgs))] = true
	}
	type edge struct {
		to  string
		neg bool
	}
	adj := map[string][]edge{}
	var nodes []string
	for k := range idb {
		nodes = append(nodes, k)
	}
	sort.Strings(nodes)
	for _, r := range p.Rules {
		h := predKey(r.Head, len(r.HArgs))
		for _, l := range r.Body {
			if l.K != LAtom && l.K != LNeg {
				continue
			}
			t := predKey(l.Pred, len(l.Args))
			if !idb[t] {
				continue
			}
			adj[h] = append(adj[h], edge{t, l.K == LNeg || r.Do != nil})
		}
	}
	index := map[string]int{}
	low := map[string]int{}
	on := map[string]bool{}
	var stack []string
	var sccs [][]string
	n := 0
	var strong func(v string)
	strong = func(v string) {
		index[v], low[v] = n, n
		n++
		stack = append(stack, v)
		on[v] = true
		for _, e := range adj[v] {
			if _, ok := index[e.to]; !ok {
				strong(e.to)
				if low[e.to] < low[v] {
					low[v] = low[e.to]
				}
			} else if on[e.to] && index[e.to] < low[v] {
				low[v] = index[e.to]
			}
		}
		if low[v] == index[v] {
			var c []string
			for {
				w := stack[len(stack)-1]
				stack = stack[:len(stack)-1]
				on[w] = false
				c = append(c, w)
				if w == v {
					break
				}
			}
			sccs = append(sccs, c) // Tarjan emits dependencies first
		}
	}
	for _, v := range nodes {
		if _, ok := index[v]; !ok {
			strong(v)
		}
	}
	comp := map[string]int{}
	for i, c := range sccs {
		for _, v := range c {
			comp[v] = i
		}
	}
	for v, es := range adj {
		for _, e := range es {
			if e.neg && comp[v] == comp[e.to] {
				return nil, false
			}
		}
	}
	return sccs, true
}

// RefEval computes the stratified least model of p over its base facts.
func RefEval(p *Program, capFacts int) (res RefResult) {
	res.Facts = map[string]Fact{}
	res.RuleFacts = make([]map[string]Fact, len(p.Rules))
	for i := range res.RuleFacts {
		res.RuleFacts[i] = map[string]Fact{}
	}
	defer func() {
		if x := recover(); x != nil {
			if re, ok := x.(refErr); ok {
				res.Err = re.msg
				return
			}
			panic(x)
		}
	}()
	db := newRefDB()
	for _, f := range p.Facts {
		db.add(f, 0)
	}
	strata, ok := refStratify(p)
	if !ok {
		res.Err = "not stratifiable"
		return
	}
	round := 0
	for _, stratum := range strata {
		in := map[string]bool{}
		for _, v := range stratum {
			in[v] = true
		}
		var plain, agg []int
		for i, r := range p.Rules {
			if !in[predKey(r.Head, len(r.HArgs))] {
				continue
			}
			if r.Do != nil {
				agg = append(agg, i)
			} else {
				plain = append(plain, i)
			}
		}
		stratumStart := round
		for {
			round++
			var newFacts []Fact
			for _, i := range plain {
				r := p.Rules[i]
				solve(db, orderedBody(r), 0, binding{}, nil, nil, func(b binding, used []string) {
					nb := b
					if len(r.Lets) > 0 {
						nb = b.clone()
						for _, l := range r.Lets {
							v, ok := evalExpr(l.E, nb)
							if !ok {
								refFail("let expression with unbound variable in %s", r.Src())
							}
							nb[l.Var] = v
						}
					}
					f := headFact(r, nb)
					res.RuleFacts[i][f.Key()] = f
					if !db.keys[f.Key()] {
						// probe: two body facts first derived in the same earlier round >= 2
						cnt := map[int]int{}
						for _, u := range used {
							if rd := db.round[u]; rd >= stratumStart+2 {
								cnt[rd]++
							}
						}
						for _, c := range cnt {
							if c >= 2 {
								res.SameRoundJoin = true
							}
						}
						newFacts = append(newFacts, f)
					}
				})
			}
			added := false
			for _, f := range newFacts {
				if db.add(f, round) {
					added = true
				}
			}
			if len(db.keys) > capFacts {
				res.Diverged = true
				break
			}
			if !added {
				break
			}
		}
		if res.Diverged {
			break
		}
		for _, i := range agg {
			r := p.Rules[i]
			var sols []binding
			solve(db, orderedBody(r), 0, binding{}, nil, nil, func(b binding, used []string) {
				sols = append(sols, b.clone())
			})
			for _, f := range applyDo(r, sols) {
				res.RuleFacts[i][f.Key()] = f
			}
		}
		for _, i := range agg {
			for _, f := range res.RuleFacts[i] {
				db.add(f, round)
			}
		}
	}
	res.Rounds = round
	for pk := range db.byPred {
		for _, f := range db.byPred[pk] {
			res.Facts[f.Key()] = f
		}
	}
	return
}

// ---------------------------------------------------------------------------
// safety (binding closure) and evaluation order

func exprVars(e Expr) map[string]bool {
	m := map[string]bool{}
	e.Vars(m)
	return m
}

func allBound(m map[string]bool, bound map[string]bool) bool {
	for v := range m {
		if !bound[v] {
			return false
		}
	}
	return true
}

// litBinds returns the variables l can bind once `bound` are bound, and
// whether l can be evaluated at all under `bound`.
func litBinds(l Lit, bound map[string]bool) (binds []string, ready bool) {
	switch l.K {
	case LAtom:
		m := map[string]bool{}
		for _, a := range l.Args {
			if a.Fn != "" {
				if !allBound(exprVars(a), bound) {
					return nil, false
				}
				continue
			}
			a.Vars(m)
		}
		for v := range m {
			binds = append(binds, v)
		}
		return binds, true
	case LNeg:
		m := map[string]bool{}
		l.Vars(m)
		return nil, allBound(m, bound)
	case LEq:
		lv, rv := exprVars(l.Args[0]), exprVars(l.Args[1])
		lb, rb := allBound(lv, bound), allBound(rv, bound)
		switch {
		case lb && rb:
			return nil, true
		case rb && l.Args[0].Var != "" && l.Args[0].Var != "_":
			return []string{l.Args[0].Var}, true
		case lb && l.Args[1].Var != "" && l.Args[1].Var != "_":
			return []string{l.Args[1].Var}, true
		}
		return nil, false
	case LNeq, LLt, LLe, LGt, LGe:
		m := map[string]bool{}
		l.Vars(m)
		return nil, allBound(m, bound)
	case LBuiltin:
		in := func(e Expr) bool { return allBound(exprVars(e), bound) }
		out := func(es ...Expr) []string {
			var vs []string
			for _, e := range es {
				if e.Var != "" && e.Var != "_" {
					vs = append(vs, e.Var)
				}
			}
			return vs
		}
		switch l.Pred {
		case ":match_pair", ":match_cons":
			return out(l.Args[1], l.Args[2]), in(l.Args[0])
		case ":match_nil":
			return nil, in(l.Args[0])
		case ":list:member":
			return out(l.Args[0]), in(l.Args[1])
		default:
			return nil, in(l.Args[0]) && in(l.Args[1])
		}
	}
	return nil, false
}

// BindingClosure computes which variables of the body can receive a value
// (order-independent) and an evaluation order. ok=false if some literal can
// never be evaluated.
func BindingClosure(body []Lit) (bound map[string]bool, order []int, ok bool) {
	bound = map[string]bool{}
	done := make([]bool, len(body))
	for {
		progress := false
		// positive atoms first, then anything that is ready
		for pass := 0; pass < 2; pass++ {
			for i, l := range body {
				if done[i] || (pass == 0 && l.K != LAtom) {
					continue
				}
				if bs, ready := litBinds(l, bound); ready {
					for _, v := range bs {
						bound[v] = true
					}
					done[i] = true
					order = append(order, i)
					progress = true
				}
			}
		}
		if !progress {
			break
		}
	}
	ok = true
	for _, d := range done {
		if !d {
			ok = false
		}
	}
	return
}

// orderedBody returns the body in an evaluable order (conjunction is commutative).
func orderedBody(r Rule) []Lit {
	_, order, ok := BindingClosure(r.Body)
	if !ok {
		refFail("clause is not safe: %s", r.Src())
	}
	out := make([]Lit, len(order))
	for i, j := range order {
		out[i] = r.Body[j]
	}
	return out
}
