//go:build verifsim

package harness

import (
	"codeberg.org/TauCeti/mangle-go/engine"
	"fmt"
	"strings"

	"codeberg.org/TauCeti/mangle-go/zzsim/simrt"
)

func init() {
	Register(&Prop{ID: "C04", Run: runC04, StepCap: 40_000_000, Probes: []Probe{{
		Key:  "input-mode-binds-head-variable",
		Desc: "Decl p(X) descr [mode(\"+\")]. p(X) :- q(Y). q(1). - the declared input mode makes the head variable count as bound although bottom-up evaluation never gives it a value: the clause is accepted and the non-ground fact p(X) is stored",
		Run: func(r *simrt.Run) Outcome {
			text := "q(1).\nDecl p(X) descr [mode(\"+\")].\np(X) :- q(Y).\n"
			pi, err, _ := ParseAnalyze(text, nil)
			if err != nil {
				return Outcome{} // rejected: fine
			}
			store := NewStore(StoreSimple)
			if err := engine.EvalProgram(pi, store); err != nil {
				return Violation("C04/eval-error", "accepted program fails during evaluation: %v\n%s", err, text)
			}
			if _, err := DumpStore(store, nil); err != nil {
				return Violation("C04/non-ground-fact", "a non-ground fact was stored: %v\n%s", err, text)
			}
			return Outcome{}
		}}}})
}

// unsafeReason judges a clause by the statement's own definition: a head
// variable, a named variable of a negated atom or an operand of a comparison
// that cannot receive a value from a positive atom, an equality or a transform.
func unsafeReason(r Rule) string {
	bound, _, _ := BindingClosure(r.Body)
	def := map[string]bool{}
	for v := range bound {
		def[v] = true
	}
	for _, l := range r.Lets {
		def[l.Var] = true
	}
	if r.Do != nil {
		for _, l := range r.Do.Lets {
			def[l.Var] = true
		}
	}
	for _, a := range r.HArgs {
		for v := range exprVars(a) {
			if !def[v] {
				return fmt.Sprintf("head variable %s cannot receive a value", v)
			}
		}
	}
	for _, l := range r.Body {
		switch l.K {
		case LNeg:
			m := map[string]bool{}
			l.Vars(m)
			for v := range m {
				if !bound[v] {
					return fmt.Sprintf("variable %s of the negated atom %s cannot receive a value", v, l.Src())
				}
			}
		case LLt, LLe, LGt, LGe, LNeq:
			m := map[string]bool{}
			l.Vars(m)
			for v := range m {
				if !bound[v] {
					return fmt.Sprintf("operand %s of the comparison %s cannot receive a value", v, l.Src())
				}
			}
		}
	}
	return ""
}

func runC04(r *simrt.Run, tier Tier) Outcome {
	if r.Choose(8, "c04.temporal") == 7 {
		return runC04Temporal(r, tier)
	}
	if r.OneIn(10, "c04.do-order") {
		return runC04Do(r)
	}
	o := DrawOpts(r)
	o.Aggregation = false
	o.Negation = true
	o.NegWildcard = true
	prog := GenProgram(r, o)
	// perturb 1-3 rules
	nPert := 1 + r.Choose(3, "c04.npert")
	fresh := 0
	freshVar := func() string { fresh++; return fmt.Sprintf("F%d", fresh) }
	var lower func(rule Rule) []PredInfo
	lower = func(rule Rule) []PredInfo {
		h := prog.Pred(rule.Head)
		var out []PredInfo
		for _, q := range prog.Preds {
			if q.EDB || (h != nil && q.Group < h.Group) {
				out = append(out, q)
			}
		}
		return out
	}
	var pertDesc []string
	for k := 0; k < nPert && len(prog.Rules) > 0; k++ {
		r.Tape.Mark()
		ri := r.Choose(len(prog.Rules), "c04.rule")
		rule := prog.Rules[ri]
		body := append([]Lit{}, rule.Body...)
		switch r.Choose(12, "c04.kind") {
		case 11: // a second let-statement that uses the variable of the first, written after or before it
			if len(rule.Lets) == 1 && rule.Do == nil {
				first := rule.Lets[0]
				second := Let{Var: freshVar(), E: Fn("fn:plus", V(first.Var), C(IntV(1)))}
				rule.Lets = []Let{first, second}
				where := "after"
				if r.Bool("c04.let.before") {
					rule.Lets = []Let{second, first}
					where = "before"
				}
				pertDesc = append(pertDesc, fmt.Sprintf("rule %d: let %s = fn:plus(%s, 1) written %s the statement that defines %s", ri, second.Var, first.Var, where, first.Var))
			}
		case 10: // a negated atom over a variable that gets its value through an equality with a variable bound further right
			ls := lower(rule)
			bound, _, _ := BindingClosure(body)
			var bvs []string
			for v := range bound {
				bvs = append(bvs, v)
			}
			sortStrings(bvs)
			if len(ls) > 0 && len(bvs) > 0 {
				w := bvs[r.Choose(len(bvs), "c04.alias.var")]
				q := ls[r.Choose(len(ls), "c04.alias.pred")]
				f := freshVar()
				if r.OneIn(4, "c04.alias.self") {
					f = w // X = X
				}
				var args []Expr
				used := false
				for _, t := range q.Cols {
					if varHasType(prog, rule, w, t) && (!used || r.Bool("c04.alias.again")) {
						args = append(args, V(f))
						used = true
					} else {
						args = append(args, V("_"))
					}
				}
				if used {
					eq := Lit{K: LEq, Args: []Expr{V(f), V(w)}}
					if r.Bool("c04.alias.flip") {
						eq.Args[0], eq.Args[1] = eq.Args[1], eq.Args[0]
					}
					neg := Lit{K: LNeg, Pred: q.Name, Args: args}
					pos := r.Choose(len(body)+1, "c04.alias.eqpos")
					body = append(body[:pos:pos], append([]Lit{eq}, body[pos:]...)...)
					body = append([]Lit{neg}, body...)
					pertDesc = append(pertDesc, fmt.Sprintf("rule %d: put %s in front, %s at position %d", ri, neg.Src(), eq.Src(), pos+1))
				}
			}
		case 8: // comparison whose operand is a function of a variable bound later, or never
			bound, _, _ := BindingClosure(body)
			var ints []string
			for v := range bound {
				if varHasType(prog, rule, v, TInt) {
					ints = append(ints, v)
				}
			}
			sortStrings(ints)
			inner := V(freshVar())
			lhs := C(IntV(3))
			if len(ints) > 0 {
				// a constant on the other side leaves the nested variable as the
				// only thing that can be unbound at that position
				if !r.Bool("c04.fncmp.constlhs") {
					lhs = V(ints[r.Choose(len(ints), "c04.fncmp.lhs")])
				}
				if !r.OneIn(4, "c04.fncmp.freshinner") {
					inner = V(ints[r.Choose(len(ints), "c04.fncmp.inner")])
				}
			}
			nl := Lit{K: []LKind{LLt, LLe, LGt, LGe}[r.Choose(4, "c04.fncmp.op")], Args: []Expr{Fn("fn:plus", inner, C(IntV(1))), lhs}}
			pos := r.Choose(len(body)+1, "c04.fncmp.pos")
			body = append(body[:pos:pos], append([]Lit{nl}, body[pos:]...)...)
			pertDesc = append(pertDesc, fmt.Sprintf("rule %d: added %s at position %d", ri, nl.Src(), pos))
		case 9: // two negated atoms in front: one with a variable nothing binds, one that becomes ready later
			ls := lower(rule)
			if len(ls) > 0 {
				bound, _, _ := BindingClosure(body)
				var bvs []string
				for v := range bound {
					bvs = append(bvs, v)
				}
				sortStrings(bvs)
				mk := func(useFresh bool) (Lit, bool) {
					q := ls[r.Choose(len(ls), "c04.twoneg.pred")]
					if len(q.Cols) == 0 {
						return Lit{}, false
					}
					var args []Expr
					for _, t := range q.Cols {
						var pick string
						for _, v := range bvs {
							if varHasType(prog, rule, v, t) {
								pick = v
							}
						}
						switch {
						case useFresh && len(args) == 0:
							args = append(args, V(freshVar()))
						case pick != "":
							args = append(args, V(pick))
						default:
							args = append(args, V("_"))
						}
					}
					return Lit{K: LNeg, Pred: q.Name, Args: args}, true
				}
				a, ok1 := mk(r.Bool("c04.twoneg.fresh"))
				b, ok2 := mk(false)
				if ok1 && ok2 {
					if r.Bool("c04.twoneg.swap") {
						a, b = b, a
					}
					body = append([]Lit{a, b}, body...)
					pertDesc = append(pertDesc, fmt.Sprintf("rule %d: put %s, %s in front", ri, a.Src(), b.Src()))
				}
			}
		case 0: // drop a positive atom
			var pos []int
			for i, l := range body {
				if l.K == LAtom {
					pos = append(pos, i)
				}
			}
			if len(pos) > 1 || (len(pos) == 1 && r.OneIn(3, "c04.dropall")) {
				i := pos[r.Choose(len(pos), "c04.drop")]
				body = append(body[:i:i], body[i+1:]...)
				pertDesc = append(pertDesc, fmt.Sprintf("rule %d: dropped a positive atom", ri))
			}
		case 1: // wildcard or fresh variable inside a negated atom
			for i, l := range body {
				if l.K == LNeg && len(l.Args) > 0 {
					j := r.Choose(len(l.Args), "c04.negarg")
					nl := l
					nl.Args = append([]Expr{}, l.Args...)
					if r.Bool("c04.negfresh") {
						nl.Args[j] = V(freshVar())
					} else {
						nl.Args[j] = V("_")
					}
					body[i] = nl
					pertDesc = append(pertDesc, fmt.Sprintf("rule %d: negated atom now %s", ri, nl.Src()))
					break
				}
			}
		case 2: // add a negated atom over a lower predicate
			ls := lower(rule)
			if len(ls) > 0 {
				q := ls[r.Choose(len(ls), "c04.addneg.pred")]
				bound, _, _ := BindingClosure(body)
				var bvs []string
				for v := range bound {
					bvs = append(bvs, v)
				}
				sortStrings(bvs)
				var args []Expr
				for range q.Cols {
					switch c := r.Choose(4, "c04.addneg.arg"); {
					case c == 0:
						args = append(args, V("_"))
					case c == 1:
						args = append(args, V(freshVar()))
					case len(bvs) > 0:
						args = append(args, V(bvs[r.Choose(len(bvs), "c04.addneg.var")]))
					default:
						args = append(args, V("_"))
					}
				}
				// type discipline: only variables of the right type may be reused; use
				// wildcards/fresh variables or exactly typed bound variables
				for j, t := range q.Cols {
					if args[j].Var != "" && args[j].Var != "_" && !strings.HasPrefix(args[j].Var, "F") {
						if !varHasType(prog, rule, args[j].Var, t) {
							args[j] = V("_")
						}
					}
				}
				nl := Lit{K: LNeg, Pred: q.Name, Args: args}
				pos := r.Choose(len(body)+1, "c04.addneg.pos")
				body = append(body[:pos:pos], append([]Lit{nl}, body[pos:]...)...)
				pertDesc = append(pertDesc, fmt.Sprintf("rule %d: added %s", ri, nl.Src()))
			}
		case 3: // comparison or inequality with an operand that is unbound, or bound only further right
			op := []LKind{LLt, LLe, LGt, LGe, LNeq, LNeq, LNeq}[r.Choose(7, "c04.cmp.op")]
			bound, _, _ := BindingClosure(body)
			var ints []string
			for v := range bound {
				if varHasType(prog, rule, v, TInt) {
					ints = append(ints, v)
				}
			}
			sortStrings(ints)
			a, b := V(freshVar()), C(IntV(1))
			if len(ints) > 0 && r.Bool("c04.cmp.twovars") {
				// two variables of the clause: where the literal stands decides
				// which of them already has a value
				ia := r.Choose(len(ints), "c04.cmp.a")
				a = V(ints[ia])
				if len(ints) >= 2 && !r.OneIn(4, "c04.cmp.onefresh") {
					b = V(ints[(ia+1+r.Choose(len(ints)-1, "c04.cmp.b"))%len(ints)])
				} else {
					b = V(freshVar())
				}
			}
			nl := Lit{K: op, Args: []Expr{a, b}}
			if r.Bool("c04.cmp.swap") {
				nl.Args[0], nl.Args[1] = nl.Args[1], nl.Args[0]
			}
			pos := len(body)
			if r.Bool("c04.cmp.anywhere") {
				pos = r.Choose(len(body)+1, "c04.cmp.pos")
				// prefer a place where exactly one of two different variables has a value already
				if a.Var != "" && b.Var != "" && a.Var != b.Var {
					var split []int
					for q := 0; q <= len(body); q++ {
						pre, _, _ := BindingClosure(body[:q])
						if pre[a.Var] != pre[b.Var] {
							split = append(split, q)
						}
					}
					if len(split) > 0 && !r.OneIn(4, "c04.cmp.nosplit") {
						pos = split[r.Choose(len(split), "c04.cmp.split")]
					}
				}
			}
			body = append(body[:pos:pos], append([]Lit{nl}, body[pos:]...)...)
			pertDesc = append(pertDesc, fmt.Sprintf("rule %d: added %s at position %d", ri, nl.Src(), pos))
		case 4: // head variable that nothing binds
			if len(rule.HArgs) > 0 {
				j := r.Choose(len(rule.HArgs), "c04.headarg")
				rule.HArgs = append([]Expr{}, rule.HArgs...)
				rule.HArgs[j] = V(freshVar())
				pertDesc = append(pertDesc, fmt.Sprintf("rule %d: head argument %d is a fresh variable", ri, j))
			}
		case 5, 6: // shuffle premises
			idx := shuffleInts(r, len(body), "c04.shuffle")
			nb := make([]Lit, len(body))
			for i, j := range idx {
				nb[i] = body[j]
			}
			body = nb
			pertDesc = append(pertDesc, fmt.Sprintf("rule %d: premises shuffled", ri))
		case 7: // equality chain giving a value to a fresh variable (stays safe)
			bound, _, _ := BindingClosure(body)
			for v := range bound {
				_ = v
			}
			f := freshVar()
			body = append(body, Lit{K: LEq, Args: []Expr{V(f), C(NameV("/a"))}}, Lit{K: LNeq, Args: []Expr{V(f), C(NameV("/b"))}})
			pertDesc = append(pertDesc, fmt.Sprintf("rule %d: added %s = /a, %s != /b", ri, f, f))
		}
		if len(body) == 0 {
			continue
		}
		rule.Body = body
		prog.Rules[ri] = rule
	}
	src := prog.Source(true)
	r.Logf("perturbations: %v\nprogram:\n%s", pertDesc, src)
	unsafe := ""
	unsafeRule := ""
	for _, rule := range prog.Rules {
		if why := unsafeReason(rule); why != "" {
			unsafe, unsafeRule = why, rule.Src()
			break
		}
	}
	cfg := drawStoreCfg(r)
	setCols := SetColsOf(prog)
	res := EvalVariant(r, MakeVariant(r, prog, true, false), cfg, setCols)
	ctx := fmt.Sprintf("%s\nperturbations: %v\nprogram:\n%s", cfg, pertDesc, src)
	if res.Stage == "panic" {
		return Violation("C04/panic", "panic: %s\n%s", res.Panic, ctx)
	}
	if res.Stage == "parse" {
		return Violation("C04/generator", "generated program does not parse: %v\n%s", res.Err, src)
	}
	if res.Stage == "analysis" {
		if unsafe != "" {
			r.Probe("unsafe-clause-rejected")
		}
		return Outcome{Nontrivial: unsafe != "", Discard: "", Sample: map[string]any{"verdict": "rejected", "unsafe": unsafe, "error": firstLine(res.Err.Error()), "perturbations": pertDesc}}
	}
	if unsafe != "" {
		return Violation("C04/unsafe-accepted", "analysis accepts a clause that is unsafe by the statement's definition: %s\nclause: %s\n%s", unsafe, unsafeRule, ctx)
	}
	if res.Stage == "dump" {
		return Violation("C04/non-ground-fact", "a non-ground or malformed fact was stored: %v\n%s", res.Err, ctx)
	}
	if res.Stage != "" {
		return Violation("C04/eval-error", "an accepted program fails during evaluation (%s): %v\n%s", res.Stage, res.Err, ctx)
	}
	// semantics of the clauses as written
	ref := RefEval(prog, refCap)
	if ref.Err != "" {
		return Violation("C04/generator", "reference evaluator rejects a program judged safe: %s\n%s", ref.Err, src)
	}
	if ref.Diverged {
		return Outcome{Discard: "reference-model-too-large"}
	}
	want, _ := refKeys(ref, setCols)
	got := resortSets(res.Facts, setCols)
	missing, extra := DiffSets(want, got)
	if len(missing)+len(extra) > 0 {
		return Violation("C04/literal-ignored-or-misread", "the accepted program does not evaluate to the meaning of its clauses as written\nmissing: %v\nextra: %v\n%s", missing, extra, ctx)
	}
	hasWild := strings.Contains(src, "!") && strings.Contains(src, "_")
	if hasWild {
		r.Probe("accepted-with-wildcard-in-negation")
	}
	return Outcome{Nontrivial: len(pertDesc) > 0, Sample: map[string]any{"verdict": "accepted", "perturbations": pertDesc, "program": strings.Split(strings.TrimSpace(src), "\n")}}
}

// varHasType says whether variable v occurs in rule at a position of type t
// (positions of generated predicates only).
func varHasType(p *Program, rule Rule, v string, t Ty) bool {
	for _, l := range rule.Body {
		if l.K != LAtom {
			continue
		}
		pi := p.Pred(l.Pred)
		if pi == nil {
			continue
		}
		for j, a := range l.Args {
			if a.Var == v && j < len(pi.Cols) && pi.Cols[j] == t {
				return true
			}
		}
	}
	return false
}
