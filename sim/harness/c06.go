//go:build verifsim

package harness

import (
	"errors"
	"fmt"
	"sort"
	"strings"
	"time"

	"codeberg.org/TauCeti/mangle-go/ast"
	"codeberg.org/TauCeti/mangle-go/factstore"
	"codeberg.org/TauCeti/mangle-go/zzsim/simrt"
)

// ConstPool draws a pool of constants of all kinds.
func ConstPool(r *simrt.Run, n int) []Val {
	var pool []Val
	atom := func() Val {
		switch r.Choose(9, "pool.kind") {
		case 0, 1:
			return NameV([]string{"/a", "/b", "/c", "/a/b", "/x.y-z"}[r.Choose(5, "pool.name")])
		case 2, 3:
			return IntV([]int64{0, 1, 2, -1, 65792, 9223372036854775807, -9223372036854775808}[r.Choose(7, "pool.int")])
		case 4:
			return StrV([]string{"", "s", "a b", "q\"uote", "ünï", "/a"}[r.Choose(6, "pool.str")])
		case 5:
			return FloatV([]float64{0.5, 1, -2.25, 1e10}[r.Choose(4, "pool.float")])
		case 6:
			return Val{K: VBytes, S: []string{"", "\x00\xff", "ab"}[r.Choose(3, "pool.bytes")]}
		case 7:
			return Val{K: VTime, N: []int64{0, 1, 1700000000000000000}[r.Choose(3, "pool.time")]}
		default:
			return Val{K: VDur, N: []int64{0, 1, 3600000000000}[r.Choose(3, "pool.dur")]}
		}
	}
	var gen func(depth int) Val
	gen = func(depth int) Val {
		if depth == 0 || r.Choose(3, "pool.struct?") < 2 {
			return atom()
		}
		switch r.Choose(4, "pool.shape") {
		case 0:
			return PairV(gen(depth-1), gen(depth-1))
		case 1:
			k := r.Choose(3, "pool.listlen")
			var es []Val
			for i := 0; i < k; i++ {
				es = append(es, gen(depth-1))
			}
			return ListV(es...)
		case 2:
			k := 1 + r.Choose(2, "pool.maplen")
			v := Val{K: VMap}
			seen := map[string]bool{}
			hseen := map[uint64]bool{}
			for i := 0; i < k; i++ {
				key := atom()
				// map keys with equal hash codes are ordered by Go map
				// iteration inside ast.Map (C08 territory, not judged here)
				if h := ToConst(key).Hash(); seen[key.Key()] || hseen[h] {
					continue
				} else {
					hseen[h] = true
				}
				seen[key.Key()] = true
				v.Elems = append(v.Elems, key, gen(depth-1))
			}
			return v
		default:
			k := 1 + r.Choose(2, "pool.structlen")
			v := Val{K: VStruct}
			seen := map[string]bool{}
			for i := 0; i < k; i++ {
				key := NameV([]string{"/f", "/g", "/h"}[r.Choose(3, "pool.field")])
				if seen[key.Key()] {
					continue
				}
				seen[key.Key()] = true
				v.Elems = append(v.Elems, key, gen(depth-1))
			}
			return v
		}
	}
	seen := map[string]bool{}
	for i := 0; i < n*3 && len(pool) < n; i++ {
		v := gen(2)
		if !seen[v.Key()] {
			seen[v.Key()] = true
			pool = append(pool, v)
		}
	}
	return pool
}

// storeModel is the reference: a set of ground atoms, split into the part a
// wrapper can write (out) and the read-only part (base).
type storeModel struct {
	base map[string]Fact
	out  map[string]Fact
	ever map[string]bool // predicate ids ever present
}

func predID(f Fact) string { return fmt.Sprintf("%s/%d", f.Pred, len(f.Args)) }

func (m *storeModel) has(f Fact) bool {
	_, a := m.base[f.Key()]
	_, b := m.out[f.Key()]
	return a || b
}

func (m *storeModel) all() []Fact {
	var out []Fact
	for _, f := range m.base {
		out = append(out, f)
	}
	for k, f := range m.out {
		if _, dup := m.base[k]; !dup {
			out = append(out, f)
		}
	}
	sort.Slice(out, func(i, j int) bool { return out[i].Key() < out[j].Key() })
	return out
}

type c06Topo struct {
	name      string
	store     factstore.FactStore
	exact     bool // EstimateFactCount documented exact
	canRemove bool
	// onlyNewAdds: Add is only issued for atoms that are absent (the layered
	// temporal store documents that it does not deduplicate intervals against
	// its base, so the return value of re-adding is not judged)
	onlyNewAdds bool
}

const (
	topoPlain = iota
	topoConcurrent
	topoTeeing
	topoMerged
	topoTemporal
	topoTemporalAt
	topoTemporalLayered
	numTopos
)

func newRemovable(kind int) factstore.FactStoreWithRemove {
	switch kind {
	case 0:
		return factstore.NewSimpleInMemoryStore()
	case 1:
		return factstore.NewIndexedInMemoryStore()
	case 2:
		return factstore.NewMultiIndexedInMemoryStore()
	default:
		return factstore.NewMultiIndexedArrayInMemoryStore()
	}
}

var removableNames = []string{"simple", "indexed", "multi-indexed", "multi-indexed-array"}

func init() {
	Register(&Prop{ID: "C06", Run: runC06, Probes: c06Probes()})
}

// buildUniverse draws atoms over 2-4 predicates (two share a symbol with
// different arity), filtered so that no two atoms of one predicate have equal
// argument hash sequences (that is the known hash-conflation trigger).
func buildUniverse(r *simrt.Run) ([]Fact, int) {
	if r.OneIn(3, "u.cluster") {
		if uni := hashCluster(r); len(uni) >= 3 {
			return uni, 1
		}
	}
	pool := ConstPool(r, 4+r.Choose(5, "u.poolsize"))
	type pd struct {
		name string
		ar   int
	}
	preds := []pd{{"p", 1}, {"p", 2}, {"q", 0}, {"r", 3}}
	preds = preds[:2+r.Choose(3, "u.npreds")]
	var uni []Fact
	seen := map[string]bool{}
	hseen := map[string]bool{}
	dropped := 0
	for _, p := range preds {
		n := 1 + r.Choose(6, "u.natoms")
		if p.ar == 0 {
			n = 1
		}
		for i := 0; i < n; i++ {
			f := Fact{Pred: p.name}
			for a := 0; a < p.ar; a++ {
				f.Args = append(f.Args, pool[r.Choose(len(pool), "u.arg")])
			}
			if seen[f.Key()] {
				continue
			}
			seen[f.Key()] = true
			hk := predID(f) + "#" + ArgHashKey(ToAtom(f))
			if hseen[hk] {
				dropped++ // an atom whose hash code equals that of another atom: kept, stores must tell them apart
			}
			hseen[hk] = true
			uni = append(uni, f)
		}
	}
	return uni, dropped
}

// hashCluster builds a small universe of atoms of one predicate (and, for the
// indexed stores, one first argument) whose hash codes are equal or differ by
// one or two: the stores keep such atoms apart by probing, and removal has to
// keep every displaced atom reachable. The candidates are numbers, instants
// and durations with the same 64-bit payload, some with a high byte flipped;
// which of them really are neighbours is decided by asking Atom.Hash, not by
// assuming how it is computed.
func hashCluster(r *simrt.Run) []Fact {
	base := int64(r.Choose(3, "u.cl.base"))
	ar := 1 + r.Choose(2, "u.cl.arity")
	var cands []Fact
	for k := 0; k < 4; k++ {
		n := base ^ int64(k)<<56
		for _, v := range []Val{IntV(n), {K: VTime, N: n}, {K: VDur, N: n}} {
			f := Fact{Pred: "p"}
			if ar == 2 {
				f.Args = append(f.Args, NameV("/a"))
			}
			f.Args = append(f.Args, v)
			cands = append(cands, f)
		}
	}
	hs := make([]uint64, len(cands))
	for i, f := range cands {
		hs[i] = ToAtom(f).Hash()
	}
	var near []Fact
	adjacent := false
	for i := range cands {
		ok := false
		for j := range cands {
			if i == j {
				continue
			}
			d := hs[i] - hs[j]
			if hs[j] > hs[i] {
				d = hs[j] - hs[i]
			}
			if d <= 2 {
				ok = true
				if d == 1 {
					adjacent = true
				}
			}
		}
		if ok {
			near = append(near, cands[i])
		}
	}
	if len(near) < 3 {
		return nil
	}
	idx := shuffleInts(r, len(near), "u.cl.pick")
	n := 3 + r.Choose(5, "u.cl.n")
	if n > len(near) {
		n = len(near)
	}
	var uni []Fact
	for _, i := range idx[:n] {
		uni = append(uni, near[i])
	}
	if adjacent {
		r.Probe("universe-has-atoms-with-adjacent-hash")
	}
	return uni
}

func runC06(r *simrt.Run, tier Tier) Outcome {
	r.OrderPolicy = r.Choose(simrt.NumOrderPolicies, "c06.order")
	r.OrderSeed = uint64(r.Choose(1<<16, "c06.orderseed"))
	uni, dropped := buildUniverse(r)
	if dropped > 0 {
		r.Probe("universe-has-atoms-with-equal-hash")
	}
	if len(uni) < 2 {
		return Outcome{Discard: "tiny-universe"}
	}
	m := &storeModel{base: map[string]Fact{}, out: map[string]Fact{}, ever: map[string]bool{}}
	pick := func(label string) Fact { return uni[r.Choose(len(uni), label)] }
	prefill := func(s factstore.FactStore, into map[string]Fact, label string) {
		n := r.Choose(4, label+".n")
		for i := 0; i < n; i++ {
			f := pick(label)
			s.Add(ToAtom(f))
			into[f.Key()] = f
			m.ever[predID(f)] = true
		}
	}
	topo := r.Choose(numTopos, "c06.topo")
	kind := r.Choose(4, "c06.kind")
	var t c06Topo
	switch topo {
	case topoPlain:
		t = c06Topo{name: removableNames[kind], store: newRemovable(kind), exact: true, canRemove: true}
	case topoConcurrent:
		t = c06Topo{name: "concurrent(" + removableNames[kind] + ")", store: factstore.NewConcurrentFactStore(newRemovable(kind)), exact: true, canRemove: true}
	case topoTeeing:
		base := newRemovable(kind)
		prefill(base, m.base, "c06.teebase")
		t = c06Topo{name: "teeing(base=" + removableNames[kind] + ")", store: factstore.NewTeeingStore(base), canRemove: true}
	case topoMerged:
		nr := 1 + r.Choose(2, "c06.nreads")
		var reads []factstore.ReadOnlyFactStore
		for i := 0; i < nr; i++ {
			rs := newRemovable(r.Choose(4, "c06.readkind"))
			// read stores are kept disjoint, as the documentation advises
			n := r.Choose(4, "c06.read.n")
			for j := 0; j < n; j++ {
				f := pick("c06.read")
				if _, dup := m.base[f.Key()]; dup {
					continue
				}
				rs.Add(ToAtom(f))
				m.base[f.Key()] = f
				m.ever[predID(f)] = true
			}
			reads = append(reads, rs)
		}
		t = c06Topo{name: fmt.Sprintf("merged(%d reads, write=%s)", nr, removableNames[kind]), store: factstore.NewMergedStore(reads, newRemovable(kind)), canRemove: true}
	case topoTemporal:
		t = c06Topo{name: "temporal-adapter", store: factstore.NewTemporalFactStoreAdapter(factstore.NewTemporalStore()), exact: true}
	case topoTemporalLayered:
		// the adapter over a layered temporal store, as the interpreter builds it
		// after loading a fragment; atoms may have (different) intervals in both layers
		baseT := factstore.NewTemporalStore()
		tee := factstore.NewTeeingTemporalStore(baseT)
		n := 1 + r.Choose(5, "c06.layer.n")
		for i := 0; i < n; i++ {
			f := pick("c06.layer")
			lo := int64(r.Choose(20, "c06.layer.lo"))
			baseT.Add(ToAtom(f), toInterval(iv{lo, lo + 3}))
			if r.Bool("c06.layer.both") {
				tee.Add(ToAtom(f), toInterval(iv{lo + 10, lo + 12}))
				r.Probe("atom-in-both-temporal-layers")
			}
			m.out[f.Key()] = f
			m.ever[predID(f)] = true
		}
		t = c06Topo{name: "temporal-adapter(teeing temporal store)", store: factstore.NewTemporalFactStoreAdapter(tee)}
	case topoTemporalAt:
		at := time.Unix(0, int64(r.Choose(1000, "c06.at"))*1e9).UTC()
		t = c06Topo{name: "temporal-adapter-at", store: factstore.NewTemporalFactStoreAdapterAt(factstore.NewTemporalStore(), at), exact: true}
	}
	r.Logf("topology %s order=%s universe=%d", t.name, simrt.OrderNames[r.OrderPolicy], len(uni))
	s := t.store
	nOps := 1 + r.Choose(30, "c06.nops")
	if tier == Thorough {
		nOps = 1 + r.Choose(60, "c06.nops")
	}
	var trace []string
	fail := func(class, format string, args ...any) Outcome {
		o := Violation(class, "store %s: "+format+"\nhistory:\n  %s", append(append([]any{t.name}, args...), strings.Join(trace, "\n  "))...)
		return o
	}
	checkAll := func() *Outcome {
		// membership of every universe atom
		for _, f := range uni {
			got := s.Contains(ToAtom(f))
			if got != m.has(f) {
				o := fail("C06/contains", "Contains(%s) = %v, model says %v", f.Key(), got, m.has(f))
				return &o
			}
		}
		// full scans per predicate ever seen + listing
		want := map[string]int{}
		for _, f := range m.all() {
			want[f.Key()] = 1
		}
		got := map[string]int{}
		preds := map[string]bool{}
		for _, f := range uni {
			preds[predID(f)] = true
		}
		for _, f := range uni {
			id := predID(f)
			if !preds[id] {
				continue
			}
			delete(preds, id)
			q := ast.NewQuery(ast.PredicateSym{Symbol: f.Pred, Arity: len(f.Args)})
			err := s.GetFacts(q, func(a ast.Atom) error {
				ff, err := FromAtom(a)
				if err != nil {
					return err
				}
				got[ff.Key()]++
				return nil
			})
			if err != nil {
				o := fail("C06/scan-error", "GetFacts(%v) returned %v", q, err)
				return &o
			}
		}
		for k, n := range got {
			if want[k] == 0 {
				o := fail("C06/scan-extra", "full scan yields %s which is not in the model", k)
				return &o
			}
			if n != 1 {
				o := fail("C06/scan-duplicate", "full scan yields %s %d times", k, n)
				return &o
			}
		}
		for k := range want {
			if got[k] == 0 {
				o := fail("C06/scan-missing", "full scan does not yield %s", k)
				return &o
			}
		}
		// predicate listing
		listed := map[string]bool{}
		for _, p := range s.ListPredicates() {
			listed[fmt.Sprintf("%s/%d", p.Symbol, p.Arity)] = true
		}
		for _, f := range m.all() {
			if !listed[predID(f)] {
				o := fail("C06/listpredicates-missing", "ListPredicates lacks %s although %s is stored; listed=%v", predID(f), f.Key(), sortedKeys(listed))
				return &o
			}
		}
		for id := range listed {
			if !m.ever[id] {
				o := fail("C06/listpredicates-extra", "ListPredicates has %s which never had a fact", id)
				return &o
			}
		}
		if t.exact {
			if c := s.EstimateFactCount(); c != len(want) {
				o := fail("C06/count", "EstimateFactCount = %d, model has %d", c, len(want))
				return &o
			}
		} else if c := s.EstimateFactCount(); c < len(want) {
			o := fail("C06/count-under", "EstimateFactCount = %d is below the number of facts %d (documented as an over-estimate)", c, len(want))
			return &o
		}
		return nil
	}
	if o := checkAll(); o != nil {
		return *o
	}
	mutations := 0
	for i := 0; i < nOps; i++ {
		r.Tape.Mark()
		switch r.Choose(8, "c06.op") {
		case 0, 1: // Add
			f := pick("c06.add")
			if t.onlyNewAdds && m.has(f) {
				continue
			}
			want := !m.has(f)
			got := s.Add(ToAtom(f))
			trace = append(trace, fmt.Sprintf("Add(%s) = %v", f.Key(), got))
			if want {
				m.out[f.Key()] = f
				m.ever[predID(f)] = true
				mutations++
			}
			if got != want {
				return fail("C06/add-return", "Add(%s) returned %v, atom was %s", f.Key(), got, map[bool]string{true: "absent", false: "present"}[want])
			}
		case 2: // Remove
			rem, ok := s.(factstore.FactStoreWithRemove)
			if !ok || !t.canRemove {
				continue
			}
			f := pick("c06.remove")
			_, want := m.out[f.Key()]
			got := rem.Remove(ToAtom(f))
			trace = append(trace, fmt.Sprintf("Remove(%s) = %v", f.Key(), got))
			delete(m.out, f.Key())
			if want {
				mutations++
			}
			if got != want {
				return fail("C06/remove-return", "Remove(%s) returned %v, model says %v", f.Key(), got, want)
			}
		case 3: // pattern query
			f := pick("c06.query")
			var args []ast.BaseTerm
			var cons []int
			for j, a := range f.Args {
				switch r.Choose(4, "c06.pat") {
				case 0:
					args = append(args, ToConst(a))
					cons = append(cons, j)
				case 1:
					args = append(args, ast.Variable{Symbol: "_"})
				case 2:
					args = append(args, ast.Variable{Symbol: "X"}) // possibly repeated
				default:
					args = append(args, ast.Variable{Symbol: fmt.Sprintf("Y%d", j)})
				}
			}
			q := ast.Atom{Predicate: ast.PredicateSym{Symbol: f.Pred, Arity: len(f.Args)}, Args: args}
			want := map[string]bool{}
			for _, g := range m.all() {
				if predID(g) != predID(f) {
					continue
				}
				ok := true
				for _, j := range cons {
					if g.Args[j].Key() != f.Args[j].Key() {
						ok = false
					}
				}
				if ok {
					want[g.Key()] = true
				}
			}
			got := map[string]int{}
			err := s.GetFacts(q, func(a ast.Atom) error {
				ff, err := FromAtom(a)
				if err != nil {
					return err
				}
				got[ff.Key()]++
				return nil
			})
			trace = append(trace, fmt.Sprintf("GetFacts(%v) -> %d facts, err=%v", q, len(got), err))
			if err != nil {
				return fail("C06/query-error", "GetFacts(%v) = %v", q, err)
			}
			for k, n := range got {
				if !want[k] {
					return fail("C06/query-extra", "GetFacts(%v) yields %s which does not match or is not stored", q, k)
				}
				if n != 1 {
					return fail("C06/query-duplicate", "GetFacts(%v) yields %s %d times", q, k, n)
				}
			}
			for k := range want {
				if got[k] == 0 {
					return fail("C06/query-missing", "GetFacts(%v) does not yield %s", q, k)
				}
			}
			if len(cons) > 0 && len(want) > 0 {
				r.Probe("pattern-query-with-constants-nonempty")
			}
		case 4: // Merge from another store
			other := newRemovable(r.Choose(4, "c06.mergekind"))
			n := r.Choose(5, "c06.merge.n")
			var fs []string
			for j := 0; j < n; j++ {
				f := pick("c06.merge")
				if t.onlyNewAdds && m.has(f) {
					continue
				}
				if _, inBase := m.base[f.Key()]; inBase && topo == topoTeeing {
					// known finding teeing-merge-duplicates-base-fact: TeeingStore.Merge
					// copies facts its base already holds into Out (pinned by the
					// repository's own test); the trigger is kept out of random histories
					r.Probe("teeing-merge-trigger-avoided")
					continue
				}
				other.Add(ToAtom(f))
				if !m.has(f) {
					m.out[f.Key()] = f
					mutations++
				} else {
					r.Probe("merge-overlaps-existing")
				}
				m.ever[predID(f)] = true
				fs = append(fs, f.Key())
			}
			s.Merge(other)
			trace = append(trace, fmt.Sprintf("Merge(%v)", fs))
		case 5: // aborted scan
			f := pick("c06.abort")
			q := ast.NewQuery(ast.PredicateSym{Symbol: f.Pred, Arity: len(f.Args)})
			k := r.Choose(3, "c06.abort.k")
			stop := errors.New("stop")
			seen := 0
			total := 0
			for _, g := range m.all() {
				if predID(g) == predID(f) {
					total++
				}
			}
			err := s.GetFacts(q, func(ast.Atom) error {
				if seen == k {
					return stop
				}
				seen++
				return nil
			})
			trace = append(trace, fmt.Sprintf("aborted scan of %s after %d -> %v", predID(f), k, err))
			if total > k {
				r.Fault("scan-aborted-by-callback")
				if err != stop {
					return fail("C06/abort-error-lost", "callback returned an error at fact %d of %d but GetFacts returned %v", k, total, err)
				}
			} else if err != nil {
				return fail("C06/abort-spurious", "GetFacts returned %v although the callback never failed", err)
			}
		case 6: // Contains of a random atom (also covered by checkAll)
			f := pick("c06.contains")
			got := s.Contains(ToAtom(f))
			trace = append(trace, fmt.Sprintf("Contains(%s) = %v", f.Key(), got))
			if got != m.has(f) {
				return fail("C06/contains", "Contains(%s) = %v, model says %v", f.Key(), got, m.has(f))
			}
		case 7: // count
			trace = append(trace, fmt.Sprintf("EstimateFactCount() = %d", s.EstimateFactCount()))
		}
		if o := checkAll(); o != nil {
			return *o
		}
	}
	r.Logf("history: %s", strings.Join(trace, "; "))
	return Outcome{Nontrivial: mutations >= 2, Sample: map[string]any{"store": t.name, "ops": trace}}
}

// ---------------------------------------------------------------------------
// fixed probes: atoms with equal hash codes (known finding D8)

func c06Probes() []Probe {
	type pair struct {
		key  string
		a, b Fact
	}
	pairs := []pair{
		{"hash-conflation-list1-vs-65792", Fact{Pred: "p", Args: []Val{ListV(IntV(1))}}, Fact{Pred: "p", Args: []Val{IntV(65792)}}},
		{"hash-conflation-zero-lists", Fact{Pred: "p", Args: []Val{ListV(IntV(0)), ListV(IntV(0))}}, Fact{Pred: "p", Args: []Val{ListV(), ListV(IntV(0), IntV(0))}}},
		{"hash-conflation-number0-vs-emptylist", Fact{Pred: "p", Args: []Val{IntV(0)}}, Fact{Pred: "p", Args: []Val{ListV()}}},
	}
	var out []Probe
	out = append(out, Probe{Key: "teeing-merge-duplicates-base-fact", Desc: "TeeingStore.Merge of a fact its base holds stores it again in Out; a scan then yields it twice",
		Run: func(r *simrt.Run) Outcome {
			base := factstore.NewSimpleInMemoryStore()
			f := Fact{Pred: "p", Args: []Val{NameV("/a")}}
			base.Add(ToAtom(f))
			tee := factstore.NewTeeingStore(base)
			other := factstore.NewSimpleInMemoryStore()
			other.Add(ToAtom(f))
			tee.Merge(other)
			n := 0
			tee.GetFacts(ast.NewQuery(ast.PredicateSym{Symbol: "p", Arity: 1}), func(ast.Atom) error { n++; return nil })
			if n != 1 {
				return Violation("C06/scan-duplicate", "teeing(base={p(/a)}).Merge({p(/a)}): a scan of p yields p(/a) %d times", n)
			}
			return Outcome{}
		}})
	for _, pr := range pairs {
		pr := pr
		out = append(out, Probe{Key: pr.key, Desc: fmt.Sprintf("%s and %s have equal Atom.Hash(); hash-keyed stores must still keep them apart", pr.a.Key(), pr.b.Key()),
			Run: func(r *simrt.Run) Outcome {
				for kind := 0; kind < 4; kind++ {
					s := newRemovable(kind)
					if !s.Add(ToAtom(pr.a)) {
						return Violation("C06/conflation", "%s: first Add(%s) returned false", removableNames[kind], pr.a.Key())
					}
					if !s.Add(ToAtom(pr.b)) {
						return Violation("C06/conflation", "%s store: Add(%s) returned false after Add(%s): distinct atoms with equal hash are conflated", removableNames[kind], pr.b.Key(), pr.a.Key())
					}
					if !s.Contains(ToAtom(pr.a)) || !s.Contains(ToAtom(pr.b)) || s.EstimateFactCount() != 2 {
						return Violation("C06/conflation", "%s store: after adding %s and %s the store does not hold both", removableNames[kind], pr.a.Key(), pr.b.Key())
					}
				}
				ts := factstore.NewTemporalFactStoreAdapter(factstore.NewTemporalStore())
				ts.Add(ToAtom(pr.a))
				if !ts.Add(ToAtom(pr.b)) || !ts.Contains(ToAtom(pr.a)) || !ts.Contains(ToAtom(pr.b)) {
					return Violation("C06/conflation", "temporal adapter conflates %s and %s", pr.a.Key(), pr.b.Key())
				}
				return Outcome{}
			}})
	}
	return out
}
