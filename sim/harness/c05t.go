//go:build verifsim

package harness

import (
	"fmt"
	"sort"
	"strings"
	"time"

	"codeberg.org/TauCeti/mangle-go/ast"
	"codeberg.org/TauCeti/mangle-go/engine"
	"codeberg.org/TauCeti/mangle-go/factstore"
	"codeberg.org/TauCeti/mangle-go/zzsim/simrt"
)

// Temporal part of C05: programs with temporal annotations and operators are
// evaluated under permutations of clauses and base facts, map-order
// policies, store kinds and package wrapping; all evaluations must agree.

type c05tClause struct {
	text string // without package qualification
}

func runC05Temporal(r *simrt.Run, tier Tier) Outcome {
	names := []string{"/a", "/b", "/c"}[:1+r.Choose(3, "c05t.nnames")]
	var decls, clauses []string
	decls = append(decls, "Decl ev(A) temporal.")
	nFacts := 0
	for _, n := range names {
		k := 1 + r.Choose(4, "c05t.nivs")
		for j := 0; j < k; j++ {
			r.Tape.Mark()
			lo := int64(r.Choose(30, "c05t.lo"))
			i := c14Iv{lo, lo + int64(r.Choose(12, "c05t.len"))}
			switch r.Choose(10, "c05t.shape") {
			case 0:
				i.lo = negInf
			case 1:
				i.hi = posInf
			case 2:
				i.lo, i.hi = 0, 38 // long-running interval starting early
			}
			clauses = append(clauses, fmt.Sprintf("ev(%s)%s.", n, i.ann()))
			nFacts++
		}
	}
	for _, n := range names {
		if r.Bool("c05t.plain") {
			clauses = append(clauses, fmt.Sprintf("e(%s).", n))
		}
	}
	clauses = append(clauses, "e(/z).")
	nowSec := int64(r.Choose(41, "c05t.now"))
	nRules := 1 + r.Choose(4, "c05t.nrules")
	for k := 0; k < nRules; k++ {
		switch r.Choose(7, "c05t.rule") {
		case 6: // recursion through a temporal head: every round must keep the head's interval
			if !strings.Contains(strings.Join(decls, " "), "Decl link(") {
				decls = append(decls, "Decl link(A, B) temporal.")
				chain := []string{"/a", "/b", "/c", "/d", "/e", "/f"}[:3+r.Choose(4, "c05t.chain")]
				lo := int64(r.Choose(20, "c05t.link.lo"))
				i := c14Iv{lo, lo + 1 + int64(r.Choose(10, "c05t.link.len"))}
				for j := 0; j+1 < len(chain); j++ {
					li := i
					if r.OneIn(5, "c05t.link.other") {
						li = c14Iv{lo + 2, lo + 30}
					}
					clauses = append(clauses, fmt.Sprintf("link(%s, %s)%s.", chain[j], chain[j+1], li.ann()))
				}
			}
			clauses = append(clauses,
				fmt.Sprintf("reach%d(X, Y)@[S, E] :- link(X, Y)@[S, E].", k),
				fmt.Sprintf("reach%d(X, Z)@[S, E] :- reach%d(X, Y)@[S, E], link(Y, Z)@[S, E].", k, k))
			r.Probe("temporal-recursion")
		case 0:
			d1 := int64(r.Choose(6, "c05t.d1"))
			d2 := d1 + int64(r.Choose(8, "c05t.d2"))
			clauses = append(clauses, fmt.Sprintf("d%d(X) :- %s[%ds, %ds] ev(X).", k, []string{"<-", "[-", "<+", "[+"}[r.Choose(4, "c05t.op")], d1, d2))
		case 1:
			a := int64(r.Choose(35, "c05t.at.a"))
			clauses = append(clauses, fmt.Sprintf("at%d(X) :- ev(X)%s.", k, c14Iv{a, a + int64(r.Choose(5, "c05t.at.len"))}.ann()))
		case 2:
			clauses = append(clauses, fmt.Sprintf("iv%d(X, S, E) :- ev(X)@[S, E].", k))
		case 3: // chain of temporal rules (strata must follow the temporal mentions)
			clauses = append(clauses,
				fmt.Sprintf("ta%d(X)@[S, E] :- ev(X)@[S, E].", k),
				fmt.Sprintf("tb%d(X)@[S, E] :- ta%d(X)@[S, E], e(X).", k, k),
				fmt.Sprintf("tc%d(X) :- <-[0s, 40s] tb%d(X).", k, k))
		case 4:
			clauses = append(clauses, fmt.Sprintf("j%d(X) :- e(X), <+[0s, 20s] ev(X).", k))
		default:
			clauses = append(clauses, fmt.Sprintf("h%d(X)@[now] :- ev(X)@[S, E], e(X).", k))
		}
	}
	base := strings.Join(decls, "\n") + "\n" + strings.Join(clauses, "\n") + "\n"
	r.Logf("temporal program (now=base+%ds):\n%s", nowSec, base)
	K := 5
	if tier == Thorough {
		K = 10
	}
	type result struct {
		stage string
		err   error
		facts map[string]bool
	}
	eval := func(text string, order int, oseed uint64, storeKind int, pkg bool) (res result) {
		r.OrderPolicy, r.OrderSeed = order, oseed
		defer func() { r.OrderPolicy, r.OrderSeed = simrt.OrderAsc, 0 }()
		panicked, msg := Guard(func() {
			pi, err, st := ParseAnalyze(text, nil)
			if err != nil {
				res = result{stage: st, err: err}
				return
			}
			store := NewStore(storeKind)
			ts := factstore.NewTemporalStore()
			if err := engine.EvalProgram(pi, store, engine.WithTemporalStore(ts), engine.WithEvaluationTime(c14Base.Add(time.Duration(nowSec)*time.Second))); err != nil {
				res = result{stage: "eval", err: err}
				return
			}
			facts, err := DumpStore(store, nil)
			if err != nil {
				res = result{stage: "dump", err: err}
				return
			}
			for _, p := range ts.ListPredicates() {
				ts.GetAllFacts(ast.NewQuery(p), func(tf factstore.TemporalFact) error {
					f, err := FromAtom(tf.Atom)
					if err != nil {
						return nil
					}
					i, err := fromInterval(tf.Interval)
					if err != nil {
						return nil
					}
					facts[f.Key()+"@"+i.String()] = true
					return nil
				})
			}
			if pkg {
				un := map[string]bool{}
				for k := range facts {
					un[strings.TrimPrefix(k, "pk.")] = true
				}
				facts = un
			}
			res = result{facts: facts}
		})
		if panicked {
			res = result{stage: "panic", err: fmt.Errorf("%s", msg)}
		}
		return
	}
	var first result
	var firstDesc string
	for k := 0; k < K; k++ {
		r.Tape.Mark()
		order, oseed, storeKind, pkg := simrt.OrderAsc, uint64(0), StoreSimple, false
		cl := clauses
		if k > 0 {
			order = r.Choose(simrt.NumOrderPolicies, "c05t.order")
			oseed = uint64(r.Choose(1<<16, "c05t.orderseed"))
			storeKind = r.Choose(NumStoreKinds, "c05t.store")
			pkg = r.OneIn(4, "c05t.package")
			idx := shuffleInts(r, len(clauses), "c05t.perm")
			cl = make([]string, len(clauses))
			for i, j := range idx {
				cl[i] = clauses[j]
			}
		}
		text := strings.Join(decls, "\n") + "\n" + strings.Join(cl, "\n") + "\n"
		if pkg {
			text = "Package pk!\n" + text
		}
		desc := fmt.Sprintf("variant %d order=%s store=%s package=%v", k, simrt.OrderNames[order], StoreNames[storeKind], pkg)
		res := eval(text, order, oseed, storeKind, pkg)
		r.Logf("%s -> stage=%q facts=%d err=%v", desc, res.stage, len(res.facts), res.err)
		if res.stage == "panic" {
			return Violation("C05/panic", "%s: panic %v\nprogram:\n%s", desc, res.err, text)
		}
		if k == 0 {
			first, firstDesc = res, desc
			if res.stage == "parse" || res.stage == "analysis" {
				return Violation("C05/generator", "generated temporal program rejected (%s): %v\n%s", res.stage, res.err, text)
			}
			continue
		}
		if (first.stage == "") != (res.stage == "") {
			return Violation("C05/accept-differs", "%s: stage=%q err=%v\nbut %s: stage=%q err=%v\nprogram as first presented:\n%s\nas presented now:\n%s", firstDesc, first.stage, first.err, desc, res.stage, res.err, base, text)
		}
		if first.stage != "" {
			continue
		}
		a, b := DiffSets(first.facts, res.facts)
		if len(a)+len(b) > 0 {
			return Violation("C05/facts-differ", "%s and %s disagree (evaluation time base+%ds)\nonly in first: %v\nonly in second: %v\nprogram as first presented:\n%s\nas presented now:\n%s", firstDesc, desc, nowSec, a, b, base, text)
		}
	}
	if first.stage != "" {
		return Outcome{Discard: "temporal-eval-error"}
	}
	derived := 0
	var ks []string
	for k := range first.facts {
		if !strings.HasPrefix(k, "ev(") && !strings.HasPrefix(k, "e(") {
			derived++
		}
		ks = append(ks, k)
	}
	sort.Strings(ks)
	r.Probe("temporal-program")
	return Outcome{Nontrivial: derived >= 1 && nFacts >= 2, Sample: map[string]any{"temporal_program": strings.Split(strings.TrimSpace(base), "\n"), "facts": len(first.facts), "derived": derived, "evaluations": K}}
}
