//go:build verifsim

package harness

import (
	"fmt"
	"sort"
	"strings"

	"codeberg.org/TauCeti/mangle-go/analysis"
	"codeberg.org/TauCeti/mangle-go/ast"
	"codeberg.org/TauCeti/mangle-go/engine"
	"codeberg.org/TauCeti/mangle-go/factstore"
	"codeberg.org/TauCeti/mangle-go/parse"
	"codeberg.org/TauCeti/mangle-go/zzsim/simrt"
)

// Store kinds the engine can write to.
const (
	StoreSimple = iota
	StoreIndexed
	StoreMultiIndexed
	StoreMultiIndexedArray
	StoreConcurrent
	StoreMerged
	StoreTeeing
	NumStoreKinds
)

var StoreNames = []string{"simple", "indexed", "multi-indexed", "multi-indexed-array", "concurrent(simple)", "merged(empty,simple)", "teeing(empty base)"}

// NewStore builds a fresh, empty store of the given kind.
func NewStore(kind int) factstore.FactStore {
	switch kind {
	case StoreSimple:
		return factstore.NewSimpleInMemoryStore()
	case StoreIndexed:
		return factstore.NewIndexedInMemoryStore()
	case StoreMultiIndexed:
		return factstore.NewMultiIndexedInMemoryStore()
	case StoreMultiIndexedArray:
		return factstore.NewMultiIndexedArrayInMemoryStore()
	case StoreConcurrent:
		return factstore.NewConcurrentFactStore(factstore.NewSimpleInMemoryStore())
	case StoreMerged:
		return factstore.NewMergedStore([]factstore.ReadOnlyFactStore{factstore.NewSimpleInMemoryStore()}, factstore.NewSimpleInMemoryStore())
	case StoreTeeing:
		return factstore.NewTeeingStore(factstore.NewSimpleInMemoryStore())
	}
	panic("store kind")
}

// NewStoreWith is NewStore with base facts already in it. For the layered
// kinds the facts go where an application would have them: into the
// read-only store of a merged store and into the base of a teeing store.
func NewStoreWith(kind int, base []ast.Atom) factstore.FactStore {
	switch kind {
	case StoreMerged:
		ro := factstore.NewSimpleInMemoryStore()
		for _, a := range base {
			ro.Add(a)
		}
		return factstore.NewMergedStore([]factstore.ReadOnlyFactStore{ro}, factstore.NewSimpleInMemoryStore())
	case StoreTeeing:
		b := factstore.NewSimpleInMemoryStore()
		for _, a := range base {
			b.Add(a)
		}
		return factstore.NewTeeingStore(b)
	}
	s := NewStore(kind)
	for _, a := range base {
		s.Add(a)
	}
	return s
}

// ToConst converts a reference value to a mangle constant.
func ToConst(v Val) ast.Constant {
	switch v.K {
	case VName:
		c, err := ast.Name(v.S)
		if err != nil {
			panic(fmt.Sprintf("ToConst name %q: %v", v.S, err))
		}
		return c
	case VInt:
		return ast.Number(v.N)
	case VFloat:
		return ast.Float64(v.F)
	case VStr:
		return ast.String(v.S)
	case VBytes:
		return ast.Bytes([]byte(v.S))
	case VTime:
		return ast.Time(v.N)
	case VDur:
		return ast.Duration(v.N)
	case VList:
		var cs []ast.Constant
		for _, e := range v.Elems {
			cs = append(cs, ToConst(e))
		}
		return ast.List(cs)
	case VPair:
		a, b := ToConst(v.Elems[0]), ToConst(v.Elems[1])
		return ast.Pair(&a, &b)
	case VMap, VStruct:
		m := map[*ast.Constant]*ast.Constant{}
		var keys []*ast.Constant
		for i := 0; i+1 < len(v.Elems); i += 2 {
			k, val := ToConst(v.Elems[i]), ToConst(v.Elems[i+1])
			m[&k] = &val
			keys = append(keys, &k)
		}
		_ = keys
		if v.K == VMap {
			return *ast.Map(m)
		}
		return *ast.Struct(m)
	}
	panic("ToConst kind")
}

// FromConst converts a mangle constant to a reference value through the
// public accessor API.
func FromConst(c ast.Constant) (Val, error) {
	switch c.Type {
	case ast.NameType:
		s, err := c.NameValue()
		return NameV(s), err
	case ast.NumberType:
		n, err := c.NumberValue()
		return IntV(n), err
	case ast.Float64Type:
		f, err := c.Float64Value()
		return FloatV(f), err
	case ast.StringType:
		s, err := c.StringValue()
		return StrV(s), err
	case ast.BytesType:
		// there is no accessor for byte strings; the data is the Symbol field
		return Val{K: VBytes, S: c.Symbol}, nil
	case ast.TimeType:
		n, err := c.TimeValue()
		return Val{K: VTime, N: n}, err
	case ast.DurationType:
		n, err := c.DurationValue()
		return Val{K: VDur, N: n}, err
	case ast.PairShape:
		a, b, err := c.PairValue()
		if err != nil {
			return Val{}, err
		}
		av, err := FromConst(a)
		if err != nil {
			return Val{}, err
		}
		bv, err := FromConst(b)
		return PairV(av, bv), err
	case ast.ListShape:
		out := Val{K: VList}
		var ierr error
		e1, e2 := c.ListValues(func(e ast.Constant) error {
			v, err := FromConst(e)
			if err != nil {
				ierr = err
				return err
			}
			out.Elems = append(out.Elems, v)
			return nil
		}, func() error { return nil })
		if ierr != nil {
			return Val{}, ierr
		}
		if e1 != nil {
			return Val{}, e1
		}
		return out, e2
	case ast.MapShape, ast.StructShape:
		out := Val{K: VMap}
		if c.Type == ast.StructShape {
			out.K = VStruct
		}
		var ierr error
		cb := func(k, v ast.Constant) error {
			kv, err := FromConst(k)
			if err != nil {
				ierr = err
				return err
			}
			vv, err := FromConst(v)
			if err != nil {
				ierr = err
				return err
			}
			out.Elems = append(out.Elems, kv, vv)
			return nil
		}
		var e1, e2 error
		if c.Type == ast.MapShape {
			e1, e2 = c.MapValues(cb, func() error { return nil })
		} else {
			e1, e2 = c.StructValues(cb, func() error { return nil })
		}
		if ierr != nil {
			return Val{}, ierr
		}
		if e1 != nil {
			return Val{}, e1
		}
		return out, e2
	}
	return Val{}, fmt.Errorf("FromConst: unsupported constant type %v", c.Type)
}

// ToAtom converts a reference fact to a mangle atom.
func ToAtom(f Fact) ast.Atom {
	args := make([]ast.BaseTerm, len(f.Args))
	for i, a := range f.Args {
		args[i] = ToConst(a)
	}
	return ast.Atom{Predicate: ast.PredicateSym{Symbol: f.Pred, Arity: len(f.Args)}, Args: args}
}

// FromAtom converts a stored (ground) atom to a reference fact.
func FromAtom(a ast.Atom) (Fact, error) {
	f := Fact{Pred: a.Predicate.Symbol}
	if len(a.Args) != a.Predicate.Arity {
		return f, fmt.Errorf("atom %v: arity %d but %d args", a, a.Predicate.Arity, len(a.Args))
	}
	for _, t := range a.Args {
		c, ok := t.(ast.Constant)
		if !ok {
			return f, fmt.Errorf("non-ground atom stored: %v", a)
		}
		v, err := FromConst(c)
		if err != nil {
			return f, err
		}
		f.Args = append(f.Args, v)
	}
	return f, nil
}

// ParseAnalyze parses and analyses source text. extra lists predicates whose
// facts are preloaded into the store (arity by name).
func ParseAnalyze(src string, extra []PredInfo) (*analysis.ProgramInfo, error, string) {
	unit, err := parse.Unit(strings.NewReader(src))
	if err != nil {
		return nil, err, "parse"
	}
	ex := map[ast.PredicateSym]ast.Decl{}
	for _, p := range extra {
		sym := ast.PredicateSym{Symbol: p.Name, Arity: len(p.Cols)}
		ex[sym] = ast.NewSyntheticDeclFromSym(sym)
	}
	pi, err := analysis.AnalyzeOneUnit(unit, ex)
	if err != nil {
		return nil, err, "analysis"
	}
	return pi, nil, ""
}

// DumpStore returns the canonical keys of all facts in the store (internal
// __tmp predicates dropped) and reports non-ground or malformed atoms.
func DumpStore(s factstore.FactStore, setCols func(pred string, col int) bool) (map[string]bool, error) {
	out, _, err := DumpStoreH(s, setCols)
	return out, err
}

// ArgHashKey is the sequence of mangle hash codes of an atom's arguments.
// Two distinct atoms of one predicate with the same ArgHashKey have the same
// Atom.Hash(): the trigger domain of the known hash-conflation finding.
func ArgHashKey(a ast.Atom) string {
	var sb strings.Builder
	for _, t := range a.Args {
		if c, ok := t.(ast.Constant); ok {
			fmt.Fprintf(&sb, "%x,", c.Hash())
		}
	}
	return sb.String()
}

// DumpStoreH is DumpStore that also returns, per fact key, its ArgHashKey.
func DumpStoreH(s factstore.FactStore, setCols func(pred string, col int) bool) (map[string]bool, map[string]string, error) {
	out := map[string]bool{}
	hashes := map[string]string{}
	var preds []ast.PredicateSym
	for _, p := range s.ListPredicates() {
		preds = append(preds, p)
	}
	sort.Slice(preds, func(i, j int) bool {
		if preds[i].Symbol != preds[j].Symbol {
			return preds[i].Symbol < preds[j].Symbol
		}
		return preds[i].Arity < preds[j].Arity
	})
	var ferr error
	for _, p := range preds {
		if p.IsInternalPredicate() {
			continue
		}
		err := s.GetFacts(ast.NewQuery(p), func(a ast.Atom) error {
			f, err := FromAtom(a)
			if err != nil {
				ferr = err
				return nil
			}
			k := CanonKey(f, setCols)
			out[k] = true
			hashes[k] = ArgHashKey(a)
			return nil
		})
		if err != nil {
			return nil, nil, err
		}
	}
	return out, hashes, ferr
}

// HashCollision reports two distinct facts of one predicate whose argument
// hash sequences coincide (given key -> ArgHashKey maps).
func HashCollision(maps ...map[string]string) (string, string, bool) {
	seen := map[string]string{}
	var keys []string
	all := map[string]string{}
	for _, m := range maps {
		for k, h := range m {
			all[k] = h
		}
	}
	for k := range all {
		keys = append(keys, k)
	}
	sort.Strings(keys)
	for _, k := range keys {
		i := strings.IndexByte(k, '(')
		id := k[:i] + "#" + all[k]
		if prev, ok := seen[id]; ok && prev != k {
			return prev, k, true
		}
		seen[id] = k
	}
	return "", "", false
}

// FactHashes computes key -> ArgHashKey for reference facts.
func FactHashes(fs []Fact, setCols func(string, int) bool) map[string]string {
	out := map[string]string{}
	for _, f := range fs {
		out[CanonKey(f, setCols)] = ArgHashKey(ToAtom(f))
	}
	return out
}

// CanonKey renders a fact canonically; set-typed columns are sorted.
func CanonKey(f Fact, setCols func(pred string, col int) bool) string {
	if setCols == nil {
		return f.Key()
	}
	g := Fact{Pred: f.Pred, Args: make([]Val, len(f.Args))}
	for i, a := range f.Args {
		if a.K == VList && setCols(f.Pred, i) {
			es := append([]Val{}, a.Elems...)
			sort.Slice(es, func(x, y int) bool { return es[x].Key() < es[y].Key() })
			a = Val{K: VList, Elems: es}
		}
		g.Args[i] = a
	}
	return g.Key()
}

func SetColsOf(p *Program) func(string, int) bool {
	m := map[string][]Ty{}
	for _, pi := range p.Preds {
		m[pi.Name] = pi.Cols
	}
	return func(pred string, col int) bool {
		// strip package prefix
		if i := strings.LastIndex(pred, "."); i >= 0 {
			pred = pred[i+1:]
		}
		c := m[pred]
		return col < len(c) && c[col].IsSet()
	}
}

func sortedKeys(m map[string]bool) []string {
	out := make([]string, 0, len(m))
	for k := range m {
		out = append(out, k)
	}
	sort.Strings(out)
	return out
}

// DiffSets returns elements only in a and only in b.
func DiffSets(a, b map[string]bool) (onlyA, onlyB []string) {
	for _, k := range sortedKeys(a) {
		if !b[k] {
			onlyA = append(onlyA, k)
		}
	}
	for _, k := range sortedKeys(b) {
		if !a[k] {
			onlyB = append(onlyB, k)
		}
	}
	return
}

// shuffle permutes idx in place using tape choices.
func shuffleInts(r *simrt.Run, n int, label string) []int {
	idx := make([]int, n)
	for i := range idx {
		idx[i] = i
	}
	for i := n - 1; i > 0; i-- {
		j := r.Choose(i+1, label)
		// choice 0 keeps position i (identity is the simple choice)
		j = i - j
		idx[i], idx[j] = idx[j], idx[i]
	}
	return idx
}

func evalProgramPlain(pi *analysis.ProgramInfo, store factstore.FactStore, opts ...engine.EvalOption) error {
	return engine.EvalProgram(pi, store, opts...)
}
