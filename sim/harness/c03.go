//go:build verifsim

package harness

import (
	"fmt"
	"strings"
	"time"

	"codeberg.org/TauCeti/mangle-go/analysis"
	"codeberg.org/TauCeti/mangle-go/ast"
	"codeberg.org/TauCeti/mangle-go/zzsim/simrt"
)

func init() {
	Register(&Prop{ID: "C03", Run: runC03})
}

// edge labels
const (
	eAbsent = iota
	ePos
	eNeg // negated mention
	eAgg // mention feeding an aggregation (do-transform rule)
	// the same pair mentioned twice: positively and negated; counts as negated
	eBothPosFirst
	eBothNegFirst
)

type c03Graph struct {
	n     int
	edges [][]int // edges[h][b]
	temp  [][]int // 0 plain, 1 temporal literal with operator, 2 temporal literal with interval, 3 TemporalAtom
}

func (g c03Graph) String() string {
	var sb strings.Builder
	for h := 0; h < g.n; h++ {
		for b := 0; b < g.n; b++ {
			if g.edges[h][b] != eAbsent {
				fmt.Fprintf(&sb, "p%d %s p%d%s; ", h, []string{"", "<-+", "<-not", "<-agg", "<-+&not", "<-not&+"}[g.edges[h][b]], b, []string{"", "[temporal-op]", "[temporal-annot]", "[temporal-atom]"}[g.temp[h][b]])
			}
		}
	}
	return sb.String()
}

func c03Sym(i int) ast.PredicateSym { return ast.PredicateSym{Symbol: fmt.Sprintf("p%d", i), Arity: 1} }

func c03Program(g c03Graph) analysis.Program {
	x := ast.Variable{Symbol: "X"}
	edb := ast.PredicateSym{Symbol: "e", Arity: 1}
	prog := analysis.Program{EdbPredicates: map[ast.PredicateSym]struct{}{edb: {}}, IdbPredicates: map[ast.PredicateSym]struct{}{}}
	wrap := func(t ast.Term, mode int) ast.Term {
		switch mode {
		case 1:
			op := ast.TemporalOperator{Type: ast.DiamondMinus, Interval: ast.NewInterval(ast.NewDurationBound(0), ast.NewDurationBound(5*time.Second))}
			return ast.TemporalLiteral{Literal: t, Operator: &op}
		case 2:
			iv := ast.NewInterval(ast.NewVariableBound(ast.Variable{Symbol: "S"}), ast.NewVariableBound(ast.Variable{Symbol: "E"}))
			return ast.TemporalLiteral{Literal: t, Interval: &iv}
		case 3:
			if a, ok := t.(ast.Atom); ok {
				iv := ast.NewInterval(ast.NewVariableBound(ast.Variable{Symbol: "S"}), ast.NewVariableBound(ast.Variable{Symbol: "E"}))
				return ast.TemporalAtom{Atom: a, Interval: &iv}
			}
			return ast.TemporalLiteral{Literal: t}
		}
		return t
	}
	for h := 0; h < g.n; h++ {
		prog.IdbPredicates[c03Sym(h)] = struct{}{}
		head := ast.Atom{Predicate: c03Sym(h), Args: []ast.BaseTerm{x}}
		// base rule so that every predicate has a rule
		prog.Rules = append(prog.Rules, ast.Clause{Head: head, Premises: []ast.Term{ast.Atom{Predicate: edb, Args: []ast.BaseTerm{x}}}})
		var plain []ast.Term
		for b := 0; b < g.n; b++ {
			atom := ast.Atom{Predicate: c03Sym(b), Args: []ast.BaseTerm{x}}
			label := g.edges[h][b]
			if label == eBothPosFirst {
				// a positive mention in a rule that precedes the rule with the negated mention
				prog.Rules = append(prog.Rules, ast.Clause{Head: head, Premises: []ast.Term{wrap(atom, g.temp[h][b])}})
				label = eNeg
			}
			if label == eBothNegFirst {
				plain = append(plain, wrap(atom, g.temp[h][b]))
				label = eNeg
			}
			switch label {
			case ePos:
				plain = append(plain, wrap(atom, g.temp[h][b]))
			case eNeg:
				prem := []ast.Term{ast.Atom{Predicate: edb, Args: []ast.BaseTerm{x}}, wrap(ast.NegAtom{Atom: atom}, g.temp[h][b])}
				prog.Rules = append(prog.Rules, ast.Clause{Head: head, Premises: prem})
			case eAgg:
				c := ast.Variable{Symbol: "C"}
				tr := ast.Transform{Statements: []ast.TransformStmt{
					{Var: nil, Fn: ast.ApplyFn{Function: ast.FunctionSym{Symbol: "fn:group_by", Arity: -1}}},
					{Var: &c, Fn: ast.ApplyFn{Function: ast.FunctionSym{Symbol: "fn:count", Arity: 0}}},
				}}
				prog.Rules = append(prog.Rules, ast.Clause{Head: ast.Atom{Predicate: c03Sym(h), Args: []ast.BaseTerm{c}}, Premises: []ast.Term{wrap(atom, g.temp[h][b])}, Transform: &tr})
			}
		}
		if len(plain) > 0 {
			prog.Rules = append(prog.Rules, ast.Clause{Head: head, Premises: plain})
		}
	}
	return prog
}

// c03Check judges Stratify's answer for g. Returns "" if fine.
func c03Check(g c03Graph, strata []analysis.Nodeset, m map[ast.PredicateSym]int, err error) (string, string) {
	n := g.n
	// reachability
	reach := make([][]bool, n)
	for i := range reach {
		reach[i] = make([]bool, n)
		for j := 0; j < n; j++ {
			reach[i][j] = g.edges[i][j] != eAbsent
		}
	}
	for k := 0; k < n; k++ {
		for i := 0; i < n; i++ {
			for j := 0; j < n; j++ {
				if reach[i][k] && reach[k][j] {
					reach[i][j] = true
				}
			}
		}
	}
	bad := false
	badEdge := ""
	for h := 0; h < n; h++ {
		for b := 0; b < n; b++ {
			if g.edges[h][b] >= eNeg && (h == b || reach[b][h]) {
				bad = true
				badEdge = fmt.Sprintf("p%d depends negatively/through aggregation on p%d, which depends on p%d", h, b, h)
			}
		}
	}
	if err != nil {
		if !bad {
			return "C03/spurious-failure", fmt.Sprintf("Stratify reports %q but no dependency cycle passes through a negated or aggregated mention", err)
		}
		return "", ""
	}
	if bad {
		return "C03/unstratifiable-accepted", fmt.Sprintf("Stratify succeeded although %s", badEdge)
	}
	// map and layer list agree
	for i := 0; i < n; i++ {
		s, ok := m[c03Sym(i)]
		if !ok {
			return "C03/predicate-unassigned", fmt.Sprintf("p%d has no stratum", i)
		}
		if s < 0 || s >= len(strata) {
			return "C03/map-list-disagree", fmt.Sprintf("p%d is mapped to stratum %d of %d", i, s, len(strata))
		}
		if _, in := strata[s][c03Sym(i)]; !in {
			return "C03/map-list-disagree", fmt.Sprintf("p%d is mapped to stratum %d but is not in that layer", i, s)
		}
	}
	count := 0
	for i, layer := range strata {
		for sym := range layer {
			count++
			if m[sym] != i {
				return "C03/map-list-disagree", fmt.Sprintf("%v is in layer %d but mapped to %d", sym, i, m[sym])
			}
		}
	}
	if count != n {
		return "C03/map-list-disagree", fmt.Sprintf("layers hold %d predicates, the program has %d", count, n)
	}
	for h := 0; h < n; h++ {
		for b := 0; b < n; b++ {
			lh, lb := m[c03Sym(h)], m[c03Sym(b)]
			switch {
			case g.edges[h][b] == ePos && lb > lh:
				return "C03/dependency-later", fmt.Sprintf("p%d (layer %d) depends on p%d (layer %d)", h, lh, b, lb)
			case g.edges[h][b] >= eNeg && lb >= lh:
				return "C03/negative-not-strictly-earlier", fmt.Sprintf("p%d (layer %d) depends negatively/through aggregation on p%d (layer %d)", h, lh, b, lb)
			}
			if h != b && reach[h][b] && reach[b][h] && lh != lb {
				return "C03/scc-split", fmt.Sprintf("p%d and p%d are mutually recursive but lie in layers %d and %d", h, b, lh, lb)
			}
		}
	}
	return "", ""
}

func c03Run(r *simrt.Run, g c03Graph) Outcome {
	prog := c03Program(g)
	var strata []analysis.Nodeset
	var m map[ast.PredicateSym]int
	var err error
	panicked, msg := Guard(func() { strata, m, err = analysis.Stratify(prog) })
	if panicked {
		return Violation("C03/panic", "Stratify panics: %s\ngraph: %s", msg, g)
	}
	if cls, why := c03Check(g, strata, m, err); cls != "" {
		var rules []string
		for _, c := range prog.Rules {
			rules = append(rules, c.String())
		}
		return Violation(cls, "%s\nmap-order policy %s\ngraph: %s\nrules:\n  %s\nresult: %v err=%v", why, simrt.OrderNames[r.OrderPolicy], g, strings.Join(rules, "\n  "), m, err)
	}
	return Outcome{}
}

func runC03(r *simrt.Run, tier Tier) Outcome {
	r.OrderPolicy = r.Choose(simrt.NumOrderPolicies, "c03.order")
	r.OrderSeed = uint64(r.Choose(1<<16, "c03.orderseed"))
	n := 1 + r.Choose(8, "c03.n")
	temporal := r.Bool("c03.temporal")
	density := 2 + r.Choose(6, "c03.density")
	g := c03Graph{n: n}
	edges := 0
	neg := 0
	for h := 0; h < n; h++ {
		g.edges = append(g.edges, make([]int, n))
		g.temp = append(g.temp, make([]int, n))
		for b := 0; b < n; b++ {
			r.Tape.Mark()
			if r.Choose(density, "c03.edge?") != 0 {
				continue
			}
			g.edges[h][b] = []int{ePos, ePos, ePos, eNeg, eAgg, eBothPosFirst, eBothNegFirst}[r.Choose(7, "c03.label")]
			edges++
			if g.edges[h][b] >= eNeg {
				neg++
			}
			if temporal && r.Bool("c03.edge.temporal") {
				g.temp[h][b] = 1 + r.Choose(3, "c03.edge.tmode")
				r.Probe("temporal-mention")
			}
		}
	}
	r.Logf("graph: %s", g)
	out := c03Run(r, g)
	if out.Failed() {
		return out
	}
	// thorough: besides the drawn graph, enumerate a slice of the complete
	// space of 3-predicate labellings (4^9 graphs in 64 slices)
	if tier == Thorough {
		slice := r.Choose(64, "c03.slice")
		tm := 0
		if temporal {
			tm = 1 + r.Choose(3, "c03.slice.tmode")
		}
		total := 1 << 18 // 4^9
		for code := slice; code < total; code += 64 {
			gg := c03Graph{n: 3}
			c := code
			for h := 0; h < 3; h++ {
				gg.edges = append(gg.edges, make([]int, 3))
				gg.temp = append(gg.temp, make([]int, 3))
				for b := 0; b < 3; b++ {
					gg.edges[h][b] = c % 4
					c /= 4
					if gg.edges[h][b] != eAbsent {
						gg.temp[h][b] = tm
					}
				}
			}
			if o := c03Run(r, gg); o.Failed() {
				return o
			}
		}
		r.Probe("3-predicate-slice-enumerated")
	}
	return Outcome{Nontrivial: edges >= 2, Sample: map[string]any{"predicates": n, "graph": g.String(), "negative_or_aggregating_edges": neg, "order": simrt.OrderNames[r.OrderPolicy]}}
}
