//go:build verifsim

package harness

import (
	"fmt"
	"sort"
	"strings"
	"time"

	"codeberg.org/TauCeti/mangle-go/ast"
	"codeberg.org/TauCeti/mangle-go/engine"
	"codeberg.org/TauCeti/mangle-go/factstore"
	"codeberg.org/TauCeti/mangle-go/zzsim/simrt"
)

func init() {
	Register(&Prop{ID: "C14", Run: runC14, StepCap: 40_000_000})
}

// timeline: seconds after base
var c14Base = time.Date(2024, 3, 1, 12, 0, 0, 0, time.UTC)

func c14TS(sec int64) string {
	return c14Base.Add(time.Duration(sec) * time.Second).Format("2006-01-02T15:04:05Z")
}

func c14Nanos(sec int64) int64 { return c14Base.Add(time.Duration(sec) * time.Second).UnixNano() }

type c14Iv struct {
	lo, hi int64 // seconds; negInf/posInf for unbounded
}

func (i c14Iv) ns() iv {
	out := iv{negInf, posInf}
	if i.lo != negInf {
		out.lo = c14Nanos(i.lo)
	}
	if i.hi != posInf {
		out.hi = c14Nanos(i.hi)
	}
	return out
}

func (i c14Iv) ann() string {
	lo, hi := "_", "_"
	if i.lo != negInf {
		lo = c14TS(i.lo)
	}
	if i.hi != posInf {
		hi = c14TS(i.hi)
	}
	if i.lo == i.hi && i.lo != negInf {
		return "@[" + lo + "]"
	}
	return "@[" + lo + ", " + hi + "]"
}

func runC14(r *simrt.Run, tier Tier) Outcome {
	r.OrderPolicy = r.Choose(simrt.NumOrderPolicies, "c14.order")
	r.OrderSeed = uint64(r.Choose(1<<16, "c14.orderseed"))
	names := []string{"/a", "/b", "/c"}[:1+r.Choose(3, "c14.nnames")]
	if r.OneIn(3, "c14.lookalike") {
		// atoms that differ only in the kind of their argument and share a hash
		// code (the name /a and the string "/a"; 0 and the empty list): the
		// temporal store keeps them apart, so must everything that reads it.
		// (Source text and reference key coincide for these constants.)
		names = [][]string{{"/a", "\"/a\""}, {"0", "[]"}, {"/a", "\"/a\"", "0"}, {"0", "[]", "/b"}}[r.Choose(4, "c14.lookalike.set")]
		r.Probe("atoms-with-equal-hash-in-one-window")
	}
	nowSec := int64(r.Choose(41, "c14.now"))
	clockMode := r.OneIn(4, "c14.clockmode")
	// coalesced base facts: per atom pairwise disjoint, non-adjacent intervals
	facts := map[string][]c14Iv{}
	var src strings.Builder
	src.WriteString("Decl ev(A) temporal.\n")
	// the fact lines are collected and written in a drawn order (the interval
	// tree is built by insertion: oldest first, newest first, or mixed)
	var factLines []string
	total := 0
	for _, n := range names {
		pos := int64(r.Choose(6, "c14.start"))
		k := r.Choose(6, "c14.nivs")
		for j := 0; j < k && pos <= 38; j++ {
			r.Tape.Mark()
			length := int64(r.Choose(8, "c14.len")) // 0 = point
			i := c14Iv{pos, pos + length}
			if j == 0 && r.OneIn(8, "c14.leftunbounded") {
				i.lo = negInf
			}
			if i.hi > 40 {
				i.hi = 40
			}
			last := j == k-1
			if last && r.OneIn(8, "c14.rightunbounded") {
				i.hi = posInf
			}
			// "... until now": the documented spelling of an interval that ends at
			// the evaluation time (only when that time is given, and not before the start)
			if !clockMode && i.hi != posInf && i.lo != negInf && i.lo <= nowSec && r.OneIn(6, "c14.untilnow") {
				i.hi = nowSec
				facts[n] = append(facts[n], i)
				factLines = append(factLines, fmt.Sprintf("ev(%s)@[%s, now].\n", n, c14TS(i.lo)))
				total++
				r.Probe("base-fact-until-now")
				break
			}
			facts[n] = append(facts[n], i)
			factLines = append(factLines, fmt.Sprintf("ev(%s)%s.\n", n, i.ann()))
			total++
			if i.hi == posInf {
				break
			}
			pos = i.hi + 2 + int64(r.Choose(6, "c14.gap")) // gap >= 2 s: not adjacent
		}
	}
	switch r.Choose(3, "c14.factorder") {
	case 1: // newest first
		for i, j := 0, len(factLines)-1; i < j; i, j = i+1, j-1 {
			factLines[i], factLines[j] = factLines[j], factLines[i]
		}
	case 2:
		idx := shuffleInts(r, len(factLines), "c14.factperm")
		sh := make([]string, len(factLines))
		for i, j := range idx {
			sh[i] = factLines[j]
		}
		factLines = sh
	}
	for _, l := range factLines {
		src.WriteString(l)
	}
	// rules
	type opRule struct {
		head   string
		op     string
		d1, d2 int64
		abs    bool // the window is written with two timestamps instead of two durations
	}
	var ops []opRule
	nOps := 1 + r.Choose(2, "c14.nops")
	for k := 0; k < nOps; k++ {
		d1 := int64(r.Choose(7, "c14.d1"))
		d2 := d1 + int64(r.Choose(int(7-d1), "c14.d2"))
		o := opRule{head: fmt.Sprintf("d%d", k), op: []string{"<-", "[-", "<+", "[+"}[r.Choose(4, "c14.op")], d1: d1, d2: d2}
		if r.OneIn(5, "c14.op.abs") {
			// the documentation allows ISO timestamps in an operator's interval
			o.abs = true
			o.d1 = int64(r.Choose(36, "c14.op.t1"))
			o.d2 = o.d1 + int64(r.Choose(8, "c14.op.tlen"))
			ops = append(ops, o)
			fmt.Fprintf(&src, "%s(X) :- %s[%s, %s] ev(X).\n", o.head, o.op, c14TS(o.d1), c14TS(o.d2))
			r.Probe("operator-window-with-timestamps")
			continue
		}
		ops = append(ops, o)
		fmt.Fprintf(&src, "%s(X) :- %s[%ds, %ds] ev(X).\n", o.head, o.op, o.d1, o.d2)
	}
	// a second temporal predicate whose intervals lie inside ev's (so it stays
	// coalesced), some starting together with them, and rules that use one
	// interval variable in two literals: the instants must agree
	joinMode := r.OneIn(3, "c14.join")
	wfacts := map[string][]c14Iv{}
	if joinMode {
		src.WriteString("Decl ew(A) temporal.\n")
		for _, n := range names {
			for _, i := range facts[n] {
				if i.lo == negInf || i.hi == posInf || r.OneIn(3, "c14.w.skip") {
					continue
				}
				w := i
				switch r.Choose(4, "c14.w.shape") {
				case 0: // same interval
				case 1: // same start, earlier end
					w.hi = w.lo + (w.hi-w.lo)/2
				case 2: // later start, same end
					w.lo = w.hi - (w.hi-w.lo)/2
				default: // strictly inside, if there is room
					if w.hi-w.lo >= 2 {
						w.lo, w.hi = w.lo+1, w.hi-1
					}
				}
				wfacts[n] = append(wfacts[n], w)
				fmt.Fprintf(&src, "ew(%s)%s.\n", n, w.ann())
			}
		}
		src.WriteString("js(X, S) :- ev(X)@[S, E1], ew(X)@[S, E2].\n")
		src.WriteString("je(X, E) :- ew(X)@[S1, E], ev(X)@[S2, E].\n")
		r.Probe("shared-interval-variable")
	}
	// a rule that recurses through a past diamond operator: whoever met, at
	// instant T, somebody who was infected inside the window is infected at T.
	// Facts that first appear in a later round of the fixpoint go through the
	// same operator as those of the first round.
	recMode := r.OneIn(4, "c14.rec")
	type meet struct {
		p, q string
		t    int64
	}
	var meets []meet
	var seedT int64
	var recD1, recD2 int64
	if recMode {
		src.WriteString("Decl inf(P) temporal.\nDecl met(P, Q) temporal.\n")
		seedT = int64(r.Choose(30, "c14.rec.seed"))
		fmt.Fprintf(&src, "inf(/p0)%s.\n", c14Iv{seedT, seedT}.ann())
		nm := 2 + r.Choose(4, "c14.rec.nmeets")
		for k := 0; k < nm; k++ {
			m := meet{fmt.Sprintf("/p%d", r.Choose(4, "c14.rec.p")), fmt.Sprintf("/p%d", r.Choose(4, "c14.rec.q")), int64(r.Choose(36, "c14.rec.t"))}
			meets = append(meets, m)
			fmt.Fprintf(&src, "met(%s, %s)%s.\n", m.p, m.q, c14Iv{m.t, m.t}.ann())
		}
		recD1 = int64(r.Choose(6, "c14.rec.d1"))
		recD2 = recD1 + int64(r.Choose(30, "c14.rec.d2"))
		fmt.Fprintf(&src, "inf(Q)@[T] :- <-[%ds, %ds] inf(P), met(P, Q)@[T].\n", recD1, recD2)
		r.Probe("recursion-through-operator")
	}
	enumRule := r.Bool("c14.enum")
	if enumRule {
		src.WriteString("iv(X, S, E) :- ev(X)@[S, E].\n")
	}
	headMode := r.Choose(6, "c14.headmode") // 0 none
	var headConst c14Iv
	switch headMode {
	case 1:
		src.WriteString("h(X)@[S, E] :- ev(X)@[S, E].\n")
	case 2:
		a := int64(r.Choose(30, "c14.h.a"))
		headConst = c14Iv{a, a + int64(r.Choose(10, "c14.h.len"))}
		fmt.Fprintf(&src, "h(X)%s :- ev(X)@[S, E].\n", headConst.ann())
	case 3:
		src.WriteString("h(X)@[now] :- ev(X)@[S, E].\n")
	case 4:
		src.WriteString("h(X)@[_, E] :- ev(X)@[S, E].\n")
	case 5:
		src.WriteString("h(X)@[S, _] :- ev(X)@[S, E].\n")
	}
	// interval relations on numeric spans
	relMode := r.OneIn(3, "c14.rel")
	type span struct {
		name string
		a, b int64
	}
	var spans []span
	relNames := []string{"before", "after", "meets", "overlaps", "during", "contains", "starts", "finishes", "equals"}
	if relMode {
		ns := 2 + r.Choose(3, "c14.nspans")
		for k := 0; k < ns; k++ {
			a := int64(r.Choose(8, "c14.span.a"))
			s := span{fmt.Sprintf("/s%d", k), a, a + int64(r.Choose(5, "c14.span.len"))}
			spans = append(spans, s)
			fmt.Fprintf(&src, "span(%s, %d, %d).\n", s.name, s.a, s.b)
		}
		for _, rn := range relNames {
			fmt.Fprintf(&src, "rel_%s(X, Y) :- span(X, A, B), span(Y, C, D), :interval:%s(fn:pair(A, B), fn:pair(C, D)).\n", rn, rn)
		}
	}
	text := src.String()
	r.Logf("now=+%ds clockmode=%v\n%s", nowSec, clockMode, text)

	// ---- evaluate
	var plain map[string]bool
	temporal := map[string]int{}
	var evalErr error
	var stage string
	r.ClockSeed = 0
	if clockMode {
		r.ClockSeed = uint64(1 + r.Choose(1<<16, "c14.clockseed"))
	}
	panicked, msg := Guard(func() {
		pi, err, st := ParseAnalyze(text, nil)
		if err != nil {
			evalErr, stage = err, st
			return
		}
		store := factstore.NewSimpleInMemoryStore()
		ts := factstore.NewTemporalStore()
		opts := []engine.EvalOption{engine.WithTemporalStore(ts)}
		if clockMode {
			opts = append(opts, engine.WithNowMarker())
		} else {
			opts = append(opts, engine.WithEvaluationTime(c14Base.Add(time.Duration(nowSec)*time.Second)))
		}
		if err := engine.EvalProgram(pi, store, opts...); err != nil {
			evalErr, stage = err, "eval"
			return
		}
		plain, evalErr = DumpStore(store, nil)
		for _, p := range ts.ListPredicates() {
			ts.GetAllFacts(ast.NewQuery(p), func(tf factstore.TemporalFact) error {
				f, err := FromAtom(tf.Atom)
				if err != nil {
					evalErr = err
					return nil
				}
				i, err := fromInterval(tf.Interval)
				if err != nil {
					evalErr = err
					return nil
				}
				temporal[f.Key()+"@"+i.String()]++
				return nil
			})
		}
	})
	ctx := fmt.Sprintf("evaluation time: base+%ds (%s), clock left to the simulator: %v\nprogram:\n%s", nowSec, c14TS(nowSec), clockMode, text)
	if panicked {
		return Violation("C14/panic", "panic: %s\n%s", msg, ctx)
	}
	if stage == "parse" {
		return Violation("C14/generator", "generated program does not parse: %v\n%s", evalErr, text)
	}
	if stage == "analysis" {
		return Violation("C14/generator", "generated temporal program rejected by analysis: %v\n%s", evalErr, text)
	}
	if evalErr != nil {
		return Violation("C14/eval-error", "evaluation failed: %v\n%s", evalErr, ctx)
	}
	nowNs := c14Nanos(nowSec)
	if clockMode {
		// the one evaluation time is reported by the __now marker
		found := false
		for k := range temporal {
			if strings.HasPrefix(k, "__now(") {
				at := strings.LastIndex(k, "@[")
				var lo int64
				fmt.Sscanf(k[at+2:], "%d", &lo)
				nowNs = lo
				found = true
				delete(temporal, k)
			}
		}
		if !found {
			return Violation("C14/now-marker-missing", "WithNowMarker was requested but no __now fact was stored\n%s", ctx)
		}
		r.Probe("clock-left-to-simulator")
		ctx += fmt.Sprintf("\nevaluation time reported by __now: %d ns (base%+d ns)", nowNs, nowNs-c14Nanos(0))
	}
	// ---- reference
	wantPlain := map[string]bool{}
	wantTemporal := map[string]int{}
	for n, ivs := range facts {
		for _, i := range ivs {
			wantTemporal["ev("+n+")@"+i.ns().String()] = 1
		}
	}
	for _, o := range ops {
		var w iv
		d1, d2 := o.d1*int64(time.Second), o.d2*int64(time.Second)
		if o.abs {
			w = iv{c14Nanos(o.d1), c14Nanos(o.d2)}
		} else if o.op == "<-" || o.op == "[-" {
			w = iv{nowNs - d2, nowNs - d1}
		} else {
			w = iv{nowNs + d1, nowNs + d2}
		}
		for n, ivs := range facts {
			holds := false
			for _, i := range ivs {
				x := i.ns()
				if o.op[0] == '<' {
					if x.intersects(w) {
						holds = true
						if x.hi == w.lo || x.lo == w.hi {
							r.Probe("window-touches-interval-end")
						}
					}
				} else {
					// the store is coalesced: "throughout the window" = one interval covers it
					if x.lo <= w.lo && w.hi <= x.hi {
						holds = true
						if x.lo == w.lo || x.hi == w.hi {
							r.Probe("window-touches-interval-end")
						}
					}
				}
			}
			if holds {
				wantPlain[o.head+"("+n+")"] = true
			}
		}
		if o.d1 == o.d2 {
			r.Probe("zero-length-window")
		}
	}
	if recMode {
		lo, hi := nowNs-recD2*int64(time.Second), nowNs-recD1*int64(time.Second)
		infAt := map[string]map[int64]bool{"/p0": {c14Nanos(seedT): true}}
		for changed := true; changed; {
			changed = false
			for _, m := range meets {
				inWindow := false
				for t := range infAt[m.p] {
					if lo <= t && t <= hi {
						inWindow = true
					}
				}
				if inWindow && !infAt[m.q][c14Nanos(m.t)] {
					if infAt[m.q] == nil {
						infAt[m.q] = map[int64]bool{}
					}
					infAt[m.q][c14Nanos(m.t)] = true
					changed = true
				}
			}
		}
		for n, ts := range infAt {
			for t := range ts {
				wantTemporal["inf("+n+")@"+iv{t, t}.String()] = 1
			}
		}
		seen := map[string]bool{}
		for _, m := range meets {
			k := "met(" + m.p + ", " + m.q + ")@" + iv{c14Nanos(m.t), c14Nanos(m.t)}.String()
			if !seen[k] {
				seen[k] = true
				wantTemporal[k] = 1
			}
		}
	}
	if joinMode {
		for n, ws := range wfacts {
			for _, w := range ws {
				wantTemporal["ew("+n+")@"+w.ns().String()] = 1
				for _, i := range facts[n] {
					if i.ns().lo == w.ns().lo {
						wantPlain[fmt.Sprintf("js(%s, t:%d)", n, w.ns().lo)] = true
					}
					if i.ns().hi == w.ns().hi {
						wantPlain[fmt.Sprintf("je(%s, t:%d)", n, w.ns().hi)] = true
					}
				}
			}
		}
	}
	if enumRule {
		for n, ivs := range facts {
			for _, i := range ivs {
				x := i.ns()
				wantPlain[fmt.Sprintf("iv(%s, t:%d, t:%d)", n, x.lo, x.hi)] = true
			}
		}
	}
	if headMode != 0 {
		for n, ivs := range facts {
			for _, i := range ivs {
				x := i.ns()
				var hi iv
				switch headMode {
				case 1:
					hi = x
				case 2:
					hi = headConst.ns()
				case 3:
					hi = iv{nowNs, nowNs}
				case 4:
					hi = iv{negInf, x.hi}
				case 5:
					hi = iv{x.lo, posInf}
				}
				wantTemporal["h("+n+")@"+hi.String()] = 1
			}
		}
	}
	if relMode {
		def := map[string]func(a, b, c, d int64) bool{
			"before":   func(a, b, c, d int64) bool { return b < c },
			"after":    func(a, b, c, d int64) bool { return a > d },
			"meets":    func(a, b, c, d int64) bool { return b == c },
			"overlaps": func(a, b, c, d int64) bool { return a <= d && c <= b },
			"during":   func(a, b, c, d int64) bool { return c <= a && b <= d },
			"contains": func(a, b, c, d int64) bool { return a <= c && d <= b },
			"starts":   func(a, b, c, d int64) bool { return a == c },
			"finishes": func(a, b, c, d int64) bool { return b == d },
			"equals":   func(a, b, c, d int64) bool { return a == c && b == d },
		}
		for _, s := range spans {
			wantPlain[fmt.Sprintf("span(%s, %d, %d)", s.name, s.a, s.b)] = true
		}
		for _, rn := range relNames {
			for _, x := range spans {
				for _, y := range spans {
					if def[rn](x.a, x.b, y.a, y.b) {
						wantPlain[fmt.Sprintf("rel_%s(%s, %s)", rn, x.name, y.name)] = true
					}
				}
			}
		}
		// converse pairs, judged on the implementation's own answers
		conv := [][2]string{{"before", "after"}, {"during", "contains"}}
		for _, c := range conv {
			for _, x := range spans {
				for _, y := range spans {
					a := plain[fmt.Sprintf("rel_%s(%s, %s)", c[0], x.name, y.name)]
					b := plain[fmt.Sprintf("rel_%s(%s, %s)", c[1], y.name, x.name)]
					if a != b {
						return Violation("C14/converse-pair", ":interval:%s(%s,%s)=%v but :interval:%s(%s,%s)=%v\n%s", c[0], x.name, y.name, a, c[1], y.name, x.name, b, ctx)
					}
				}
			}
		}
		r.Probe("interval-relations")
	}
	// ---- compare
	missing, extra := DiffSets(wantPlain, plain)
	if len(missing)+len(extra) > 0 {
		cls := "C14/operator-or-annotation-wrong"
		for _, k := range append(missing, extra...) {
			if strings.HasPrefix(k, "rel_") {
				cls = "C14/interval-relation-wrong"
			}
		}
		return Violation(cls, "derived facts differ from the documented meaning\nmissing: %v\nextra: %v\n%s", missing, extra, ctx)
	}
	var tdiff []string
	keys := map[string]bool{}
	for k := range wantTemporal {
		keys[k] = true
	}
	for k := range temporal {
		keys[k] = true
	}
	var ks []string
	for k := range keys {
		ks = append(ks, k)
	}
	sort.Strings(ks)
	for _, k := range ks {
		if wantTemporal[k] != temporal[k] {
			tdiff = append(tdiff, fmt.Sprintf("%s: expected %d, stored %d", k, wantTemporal[k], temporal[k]))
		}
	}
	if len(tdiff) > 0 {
		return Violation("C14/temporal-facts-wrong", "temporal store differs from the documented meaning\n  %s\n%s", strings.Join(tdiff, "\n  "), ctx)
	}
	derived := len(wantPlain)
	return Outcome{Nontrivial: total >= 1 && derived >= 1, Sample: map[string]any{"program": strings.Split(strings.TrimSpace(text), "\n"), "now": "base+" + fmt.Sprint(nowSec) + "s", "clock_mode": clockMode, "derived": derived}}
}
