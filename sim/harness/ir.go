//go:build verifsim

package harness

import (
	"fmt"
	"sort"
	"strconv"
	"strings"
)

// The generator and the reference evaluator share this tiny representation.
// It does not use mangle's ast package.

type VKind byte

const (
	VName VKind = iota
	VInt
	VFloat
	VStr
	VList
	VPair
	VTime
	VDur
	VBytes
	VMap
	VStruct
)

// Val is a ground value.
type Val struct {
	K     VKind
	S     string  // name (with leading /), string, bytes
	N     int64   // int, time (ns), duration (ns)
	F     float64 // float
	Elems []Val   // list elements; pair = 2 elems; map/struct = k0,v0,k1,v1...
}

func NameV(s string) Val      { return Val{K: VName, S: s} }
func IntV(n int64) Val        { return Val{K: VInt, N: n} }
func StrV(s string) Val       { return Val{K: VStr, S: s} }
func FloatV(f float64) Val    { return Val{K: VFloat, F: f} }
func ListV(e ...Val) Val      { return Val{K: VList, Elems: e} }
func PairV(a, b Val) Val      { return Val{K: VPair, Elems: []Val{a, b}} }
func (v Val) IsZeroList() bool { return v.K == VList && len(v.Elems) == 0 }

// Key is a canonical string for v, injective on values.
func (v Val) Key() string {
	var sb strings.Builder
	v.key(&sb)
	return sb.String()
}

func (v Val) key(sb *strings.Builder) {
	switch v.K {
	case VName:
		sb.WriteString(v.S)
	case VInt:
		sb.WriteString(strconv.FormatInt(v.N, 10))
	case VFloat:
		sb.WriteString("f:" + strconv.FormatFloat(v.F, 'g', -1, 64))
	case VStr:
		if len(v.S) > 400 {
			// long strings are shown by their ends, length and a checksum
			h := uint64(1469598103934665603)
			for i := 0; i < len(v.S); i++ {
				h = (h ^ uint64(v.S[i])) * 1099511628211
			}
			sb.WriteString(strconv.Quote(v.S[:20]) + fmt.Sprintf("...(%d bytes, fnv %016x)...", len(v.S), h) + strconv.Quote(v.S[len(v.S)-20:]))
			break
		}
		sb.WriteString(strconv.Quote(v.S))
	case VBytes:
		sb.WriteString("b" + strconv.Quote(v.S))
	case VTime:
		sb.WriteString("t:" + strconv.FormatInt(v.N, 10))
	case VDur:
		sb.WriteString("d:" + strconv.FormatInt(v.N, 10))
	case VList:
		sb.WriteByte('[')
		for i, e := range v.Elems {
			if i > 0 {
				sb.WriteString(", ")
			}
			e.key(sb)
		}
		sb.WriteByte(']')
	case VPair:
		sb.WriteString("pair(")
		v.Elems[0].key(sb)
		sb.WriteString(", ")
		v.Elems[1].key(sb)
		sb.WriteByte(')')
	case VMap, VStruct:
		if v.K == VMap {
			sb.WriteString("map[")
		} else {
			sb.WriteString("struct{")
		}
		// order-insensitive
		var kv []string
		for i := 0; i+1 < len(v.Elems); i += 2 {
			kv = append(kv, v.Elems[i].Key()+": "+v.Elems[i+1].Key())
		}
		sort.Strings(kv)
		sb.WriteString(strings.Join(kv, ", "))
		sb.WriteByte(']')
	}
}

// Src renders v in mangle source syntax.
func (v Val) Src() string {
	switch v.K {
	case VName:
		return v.S
	case VInt:
		return strconv.FormatInt(v.N, 10)
	case VFloat:
		s := strconv.FormatFloat(v.F, 'f', -1, 64)
		if !strings.Contains(s, ".") {
			s += ".0"
		}
		return s
	case VStr:
		return srcString(v.S)
	case VBytes:
		return "b" + srcString(v.S)
	case VTime:
		return "fn:time:from_unix_nanos(" + strconv.FormatInt(v.N, 10) + ")"
	case VDur:
		return "fn:duration:from_nanos(" + strconv.FormatInt(v.N, 10) + ")"
	case VList:
		var parts []string
		for _, e := range v.Elems {
			parts = append(parts, e.Src())
		}
		return "[" + strings.Join(parts, ", ") + "]"
	case VPair:
		return "fn:pair(" + v.Elems[0].Src() + ", " + v.Elems[1].Src() + ")"
	case VMap:
		if len(v.Elems) == 0 {
			return "fn:map()"
		}
		var parts []string
		for i := 0; i+1 < len(v.Elems); i += 2 {
			parts = append(parts, v.Elems[i].Src()+": "+v.Elems[i+1].Src())
		}
		return "[" + strings.Join(parts, ", ") + "]"
	case VStruct:
		var parts []string
		for i := 0; i+1 < len(v.Elems); i += 2 {
			parts = append(parts, v.Elems[i].Src()+": "+v.Elems[i+1].Src())
		}
		return "{" + strings.Join(parts, ", ") + "}"
	}
	panic("Src: unsupported kind")
}

func srcString(s string) string {
	var sb strings.Builder
	sb.WriteByte('"')
	for _, r := range s {
		switch r {
		case '"':
			sb.WriteString(`\"`)
		case '\\':
			sb.WriteString(`\\`)
		case '\n':
			sb.WriteString(`\n`)
		case '\t':
			sb.WriteString(`\t`)
		default:
			sb.WriteRune(r)
		}
	}
	sb.WriteByte('"')
	return sb.String()
}

func EqualVal(a, b Val) bool { return a.Key() == b.Key() }

// Expr is a term of a rule: a variable, a constant or a function application.
type Expr struct {
	Var  string // non-empty: variable ("_" = wildcard)
	C    *Val
	Fn   string
	Args []Expr
}

func V(name string) Expr       { return Expr{Var: name} }
func C(v Val) Expr             { return Expr{C: &v} }
func Fn(fn string, a ...Expr) Expr { return Expr{Fn: fn, Args: a} }

func (e Expr) IsVar() bool   { return e.Var != "" }
func (e Expr) IsConst() bool { return e.C != nil }

func (e Expr) Src() string {
	switch {
	case e.Var != "":
		return e.Var
	case e.C != nil:
		return e.C.Src()
	default:
		var parts []string
		for _, a := range e.Args {
			parts = append(parts, a.Src())
		}
		return e.Fn + "(" + strings.Join(parts, ", ") + ")"
	}
}

func (e Expr) Vars(into map[string]bool) {
	if e.Var != "" && e.Var != "_" {
		into[e.Var] = true
	}
	for _, a := range e.Args {
		a.Vars(into)
	}
}

func (e Expr) Rename(f func(string) string) Expr {
	out := e
	if e.Var != "" && e.Var != "_" {
		out.Var = f(e.Var)
	}
	if len(e.Args) > 0 {
		out.Args = make([]Expr, len(e.Args))
		for i, a := range e.Args {
			out.Args[i] = a.Rename(f)
		}
	}
	return out
}

type LKind int

const (
	LAtom LKind = iota
	LNeg
	LEq
	LNeq
	LLt
	LLe
	LGt
	LGe
	LBuiltin // Pred = builtin predicate name, Args
)

// TempOp is a temporal operator on a literal.
type TempOp struct {
	Op     string // "<-", "[-", "<+", "[+"
	Lo, Hi string // bounds in source syntax (durations like 3s)
}

// Ann is an interval annotation @[a] or @[a, b]; bounds in source syntax
// (timestamp, variable, _, now).
type Ann struct {
	Lo, Hi string // Hi == "" for the point form
}

func (a *Ann) Src() string {
	if a == nil {
		return ""
	}
	if a.Hi == "" {
		return "@[" + a.Lo + "]"
	}
	return "@[" + a.Lo + ", " + a.Hi + "]"
}

// Lit is a body literal.
type Lit struct {
	K    LKind
	Pred string
	Args []Expr // atom args; for comparisons Args[0], Args[1]
	Op   *TempOp
	Ann  *Ann
}

var cmpOps = map[LKind]string{LEq: "=", LNeq: "!=", LLt: "<", LLe: "<=", LGt: ">", LGe: ">="}

func argsSrc(args []Expr) string {
	var parts []string
	for _, a := range args {
		parts = append(parts, a.Src())
	}
	return strings.Join(parts, ", ")
}

func (l Lit) Src() string {
	switch l.K {
	case LAtom, LBuiltin:
		s := ""
		if l.Op != nil {
			s = l.Op.Op + "[" + l.Op.Lo + ", " + l.Op.Hi + "] "
		}
		return s + l.Pred + "(" + argsSrc(l.Args) + ")" + l.Ann.Src()
	case LNeg:
		s := "!"
		if l.Op != nil {
			s += l.Op.Op + "[" + l.Op.Lo + ", " + l.Op.Hi + "] "
		}
		return s + l.Pred + "(" + argsSrc(l.Args) + ")"
	default:
		return l.Args[0].Src() + " " + cmpOps[l.K] + " " + l.Args[1].Src()
	}
}

func (l Lit) Vars(into map[string]bool) {
	for _, a := range l.Args {
		a.Vars(into)
	}
}

// Let is `let Var = Expr`.
type Let struct {
	Var string
	E   Expr
}

// Do is a do-transform: group_by keys + reducer lets.
type Do struct {
	Keys []string
	Lets []Let // E is a reducer application, e.g. fn:sum(X)
}

// Rule is a clause with a body.
type Rule struct {
	Head    string
	HArgs   []Expr
	HAnn    *Ann
	Body    []Lit
	Lets    []Let // let-transform (nil if none)
	Do      *Do
	Comment string
}

func (r Rule) Src() string {
	var sb strings.Builder
	sb.WriteString(r.Head + "(" + argsSrc(r.HArgs) + ")" + r.HAnn.Src())
	if len(r.Body) > 0 {
		sb.WriteString(" :- ")
		for i, l := range r.Body {
			if i > 0 {
				sb.WriteString(", ")
			}
			sb.WriteString(l.Src())
		}
	}
	if r.Do != nil {
		sb.WriteString(" |> do fn:group_by(" + strings.Join(r.Do.Keys, ", ") + ")")
		for _, l := range r.Do.Lets {
			sb.WriteString(", let " + l.Var + " = " + l.E.Src())
		}
	} else if len(r.Lets) > 0 {
		sb.WriteString(" |> ")
		for i, l := range r.Lets {
			if i > 0 {
				sb.WriteString(", ")
			}
			sb.WriteString("let " + l.Var + " = " + l.E.Src())
		}
	}
	// a name constant may contain '.', so keep the final dot apart
	sb.WriteString(" .")
	return sb.String()
}

// Fact is a ground atom, optionally with a validity interval.
type Fact struct {
	Pred string
	Args []Val
	Ann  *Ann // source-level annotation for temporal base facts
}

func (f Fact) Key() string {
	var parts []string
	for _, a := range f.Args {
		parts = append(parts, a.Key())
	}
	return f.Pred + "(" + strings.Join(parts, ", ") + ")"
}

func (f Fact) Src() string {
	var parts []string
	for _, a := range f.Args {
		parts = append(parts, a.Src())
	}
	return f.Pred + "(" + strings.Join(parts, ", ") + ")" + f.Ann.Src() + "."
}

// Ty is a column type of the generator's type discipline.
type Ty int

const (
	TName Ty = iota
	TInt
	TStr
	TListInt
	TPairNI // pair(name, int)
	TFloat
	TSetInt  // list<int> read as a set (fn:collect_distinct output)
	TSetName // list<name> read as a set
	NumTy
)

func (t Ty) IsSet() bool { return t == TSetInt || t == TSetName }

func (t Ty) String() string {
	return [...]string{"name", "int", "str", "list<int>", "pair<name,int>", "float", "set<int>", "set<name>"}[t]
}

// PredInfo describes a generated predicate.
type PredInfo struct {
	Name     string
	Cols     []Ty
	EDB      bool
	Group    int  // recursion group (IDB); EDB = -1
	Temporal bool
	Declared bool // emit a Decl
	Bounds   []string
}

func (p PredInfo) Arity() int { return len(p.Cols) }

// Program is a generated program.
type Program struct {
	Preds   []PredInfo
	Facts   []Fact // base facts (EDB)
	Rules   []Rule
	Package string // non-empty: wrap in a package
	Decls   []string
	// Order, if set, is the textual order of the clauses: indexes < len(Facts)
	// are facts, the others rules (index - len(Facts)).
	Order []int
}

func (p *Program) Pred(name string) *PredInfo {
	for i := range p.Preds {
		if p.Preds[i].Name == name {
			return &p.Preds[i]
		}
	}
	return nil
}

// Source renders the program text. Facts with inline==true predicates are
// emitted as unit clauses.
func (p *Program) Source(inlineFacts bool) string {
	var sb strings.Builder
	if p.Package != "" {
		fmt.Fprintf(&sb, "Package %s!\n", p.Package)
	}
	for _, d := range p.Decls {
		sb.WriteString(d + "\n")
	}
	for _, pi := range p.Preds {
		if !pi.Declared {
			continue
		}
		var as []string
		for i := range pi.Cols {
			as = append(as, fmt.Sprintf("A%d", i))
		}
		t := ""
		if pi.Temporal {
			t = " temporal"
		}
		b := ""
		for _, row := range pi.Bounds {
			b += " bound [" + row + "]"
		}
		fmt.Fprintf(&sb, "Decl %s(%s)%s%s.\n", pi.Name, strings.Join(as, ", "), t, b)
	}
	if len(p.Order) == len(p.Facts)+len(p.Rules) {
		for _, i := range p.Order {
			if i < len(p.Facts) {
				if inlineFacts || p.Pred(p.Facts[i].Pred) == nil || !p.Pred(p.Facts[i].Pred).EDB {
					sb.WriteString(p.Facts[i].Src() + "\n")
				}
			} else {
				sb.WriteString(p.Rules[i-len(p.Facts)].Src() + "\n")
			}
		}
		return sb.String()
	}
	for _, f := range p.Facts {
		// facts of derived predicates are always part of the text
		if inlineFacts || p.Pred(f.Pred) == nil || !p.Pred(f.Pred).EDB {
			sb.WriteString(f.Src() + "\n")
		}
	}
	for _, r := range p.Rules {
		sb.WriteString(r.Src() + "\n")
	}
	return sb.String()
}
