//go:build verifsim

package harness

import (
	"fmt"
	"sort"
	"strings"

	"codeberg.org/TauCeti/mangle-go/ast"
	"codeberg.org/TauCeti/mangle-go/engine"
	"codeberg.org/TauCeti/mangle-go/zzsim/simrt"
)

// runC02Keys is the "look-alike group keys" sub-workload of C02: the group-by
// column holds constants of different kinds whose texts coincide (the name /a,
// the string "/a", the string "7" and the number 7, the list [1] and the
// string "[1]"). Distinct key values are distinct groups whatever they look
// like when printed. The oracle groups and folds the body's solutions itself,
// keyed by kind and value.
func runC02Keys(r *simrt.Run) Outcome {
	r.OrderPolicy = r.Choose(simrt.NumOrderPolicies, "c02k.order")
	r.OrderSeed = uint64(r.Choose(1<<16, "c02k.orderseed"))
	defer func() { r.OrderPolicy, r.OrderSeed = simrt.OrderAsc, 0 }()
	pool := []Val{NameV("/a"), StrV("/a"), NameV("/b"), StrV("/b"), IntV(7), StrV("7"), IntV(0), StrV("0"),
		ListV(IntV(1)), StrV("[1]"), StrV("a"), NameV("/7")}
	nk := 2 + r.Choose(5, "c02k.nkeys")
	var keys []Val
	for i := 0; i < nk; i++ {
		j := r.Choose(len(pool), "c02k.key")
		keys = append(keys, pool[j])
		pool = append(pool[:j], pool[j+1:]...)
	}
	// facts k(Key, Second, N); the optional second premise m(Second) filters
	type row struct {
		k, s Val
		n    int64
	}
	var rows []row
	seen := map[string]bool{}
	var sb strings.Builder
	nf := 2 + r.Choose(10, "c02k.nfacts")
	for i := 0; i < nf; i++ {
		rw := row{keys[r.Choose(len(keys), "c02k.f.key")], IntV(int64(r.Choose(3, "c02k.f.s"))), int64(r.Choose(5, "c02k.f.n"))}
		id := rw.k.Key() + "|" + rw.s.Key() + "|" + fmt.Sprint(rw.n)
		if seen[id] {
			continue
		}
		seen[id] = true
		rows = append(rows, rw)
		fmt.Fprintf(&sb, "k(%s, %s, %d).\n", rw.k.Src(), rw.s.Src(), rw.n)
	}
	join := r.Bool("c02k.join")
	mset := map[string]bool{}
	if join {
		for s := 0; s < 3; s++ {
			if r.Bool("c02k.m") {
				mset[IntV(int64(s)).Key()] = true
				fmt.Fprintf(&sb, "m(%d).\n", s)
			}
		}
		if len(mset) == 0 {
			mset[IntV(0).Key()] = true
			sb.WriteString("m(0).\n")
		}
	}
	twoKeys := r.Bool("c02k.twokeys")
	body := "k(K, S, N)"
	if join {
		body += ", m(S)"
	}
	if twoKeys {
		fmt.Fprintf(&sb, "agg(K, S, C, T, Mx) :- %s |> do fn:group_by(K, S), let C = fn:count(), let T = fn:sum(N), let Mx = fn:max(N).\n", body)
	} else {
		fmt.Fprintf(&sb, "agg(K, C, T, Mx) :- %s |> do fn:group_by(K), let C = fn:count(), let T = fn:sum(N), let Mx = fn:max(N).\n", body)
	}
	text := sb.String()
	r.Logf("program:\n%s", text)
	// reference: group and fold
	type acc struct {
		key      []Val
		c, t, mx int64
		seenSol  map[string]bool
	}
	groups := map[string]*acc{}
	for _, rw := range rows {
		if join && !mset[rw.s.Key()] {
			continue
		}
		gk := rw.k.Key()
		kv := []Val{rw.k}
		if twoKeys {
			gk += "|" + rw.s.Key()
			kv = append(kv, rw.s)
		}
		a := groups[gk]
		if a == nil {
			a = &acc{key: kv, mx: rw.n, seenSol: map[string]bool{}}
			groups[gk] = a
		}
		sol := rw.k.Key() + "|" + rw.s.Key() + "|" + fmt.Sprint(rw.n)
		if a.seenSol[sol] {
			continue
		}
		a.seenSol[sol] = true
		a.c++
		a.t += rw.n
		if rw.n > a.mx {
			a.mx = rw.n
		}
	}
	want := map[string]bool{}
	for _, a := range groups {
		args := append([]Val{}, a.key...)
		args = append(args, IntV(a.c), IntV(a.t), IntV(a.mx))
		want[Fact{Pred: "agg", Args: args}.Key()] = true
	}
	pi, err, st := ParseAnalyze(text, nil)
	if err != nil {
		return Violation("C02/generator", "look-alike-keys program rejected (%s): %v\n%s", st, err, text)
	}
	kind := r.Choose(NumStoreKinds, "c02k.store")
	store := NewStore(kind)
	var evalErr error
	panicked, msg := Guard(func() { evalErr = engine.EvalProgram(pi, store) })
	if panicked {
		return Violation("C02/panic", "evaluation panics: %s\n%s", msg, text)
	}
	if evalErr != nil {
		return Violation("C02/eval-error", "evaluation fails: %v\n%s", evalErr, text)
	}
	got := map[string]bool{}
	ar := 4
	if twoKeys {
		ar = 5
	}
	dup := ""
	store.GetFacts(ast.NewQuery(ast.PredicateSym{Symbol: "agg", Arity: ar}), func(a ast.Atom) error {
		f, err := FromAtom(a)
		if err != nil {
			dup = "unreadable fact " + a.String()
			return nil
		}
		if got[f.Key()] {
			dup = "fact yielded twice: " + f.Key()
		}
		got[f.Key()] = true
		return nil
	})
	if dup != "" {
		return Violation("C02/extra-fact", "%s\n%s", dup, text)
	}
	missing, extra := DiffSets(want, got)
	sort.Strings(missing)
	sort.Strings(extra)
	if len(missing) > 0 {
		return Violation("C02/missing-fact", "group keys of different kinds that print alike: missing %v, extra %v (map order %s/%d, store %s)\n%s", missing, extra, simrt.OrderNames[r.OrderPolicy], r.OrderSeed, StoreNames[kind], text)
	}
	if len(extra) > 0 {
		return Violation("C02/extra-fact", "group keys of different kinds that print alike: extra %v (map order %s/%d, store %s)\n%s", extra, simrt.OrderNames[r.OrderPolicy], r.OrderSeed, StoreNames[kind], text)
	}
	r.Probe("look-alike-group-keys")
	return Outcome{Nontrivial: len(groups) >= 2}
}
