//go:build verifsim

package harness

import (
	"fmt"

	"codeberg.org/TauCeti/mangle-go/zzsim/simrt"
)

func renameLit(l Lit, fv func(string) string, fp func(string) string) Lit {
	out := l
	if l.K == LAtom || l.K == LNeg {
		out.Pred = fp(l.Pred)
	}
	out.Args = make([]Expr, len(l.Args))
	for i, a := range l.Args {
		out.Args[i] = a.Rename(fv)
	}
	if l.Ann != nil {
		a := *l.Ann
		a.Lo, a.Hi = renameBound(a.Lo, fv), renameBound(a.Hi, fv)
		out.Ann = &a
	}
	return out
}

func renameBound(b string, fv func(string) string) string {
	if len(b) > 0 && b[0] >= 'A' && b[0] <= 'Z' {
		return fv(b)
	}
	return b
}

// RenameRule renames variables and predicates consistently.
func RenameRule(r Rule, fv func(string) string, fp func(string) string) Rule {
	out := Rule{Head: fp(r.Head), Comment: r.Comment}
	for _, a := range r.HArgs {
		out.HArgs = append(out.HArgs, a.Rename(fv))
	}
	if r.HAnn != nil {
		a := *r.HAnn
		a.Lo, a.Hi = renameBound(a.Lo, fv), renameBound(a.Hi, fv)
		out.HAnn = &a
	}
	for _, l := range r.Body {
		out.Body = append(out.Body, renameLit(l, fv, fp))
	}
	for _, l := range r.Lets {
		out.Lets = append(out.Lets, Let{Var: fv(l.Var), E: l.E.Rename(fv)})
	}
	if r.Do != nil {
		d := &Do{}
		for _, k := range r.Do.Keys {
			d.Keys = append(d.Keys, fv(k))
		}
		for _, l := range r.Do.Lets {
			d.Lets = append(d.Lets, Let{Var: fv(l.Var), E: l.E.Rename(fv)})
		}
		out.Do = d
	}
	return out
}

// Variant is a presentation of a program: permuted, renamed, wrapped.
type Variant struct {
	Prog     *Program
	PredBack map[string]string // presented predicate name -> original
	Desc     string
}

// MakeVariant draws a presentation variant of p. identity=true returns p itself.
func MakeVariant(r *simrt.Run, p *Program, identity bool, allowPackage bool) Variant {
	if identity {
		back := map[string]string{}
		for _, pi := range p.Preds {
			back[pi.Name] = pi.Name
		}
		return Variant{Prog: p, PredBack: back, Desc: "identity"}
	}
	q := &Program{}
	desc := ""
	// predicate renaming
	fp := func(s string) string { return s }
	back := map[string]string{}
	if r.Bool("var.renamepreds") {
		perm := shuffleInts(r, len(p.Preds), "var.predperm")
		m := map[string]string{}
		for i, pi := range p.Preds {
			m[pi.Name] = fmt.Sprintf("q%c%d", 'a'+byte(perm[i]%26), i)
		}
		fp = func(s string) string {
			if n, ok := m[s]; ok {
				return n
			}
			return s
		}
		desc += "renamed-preds "
	}
	for _, pi := range p.Preds {
		n := pi
		n.Name = fp(pi.Name)
		back[n.Name] = pi.Name
		q.Preds = append(q.Preds, n)
	}
	// variable renaming
	renameVars := r.Bool("var.renamevars")
	if renameVars {
		desc += "renamed-vars "
	}
	// clause permutation
	ruleIdx := shuffleInts(r, len(p.Rules), "var.ruleperm")
	for _, i := range ruleIdx {
		rule := p.Rules[i]
		fv := func(s string) string { return s }
		if renameVars {
			off := 1 + r.Choose(5, "var.varoff")
			fv = func(s string) string {
				return fmt.Sprintf("V%s%d", s, off)
			}
		}
		q.Rules = append(q.Rules, RenameRule(rule, fv, fp))
	}
	factIdx := shuffleInts(r, len(p.Facts), "var.factperm")
	for _, i := range factIdx {
		f := p.Facts[i]
		q.Facts = append(q.Facts, Fact{Pred: fp(f.Pred), Args: f.Args, Ann: f.Ann})
	}
	q.Decls = append(q.Decls, p.Decls...)
	// textual order of all clauses, facts and rules mixed
	if r.Bool("var.mixclauses") {
		q.Order = shuffleInts(r, len(q.Facts)+len(q.Rules), "var.clauseorder")
		desc += "mixed-clause-order "
	}
	if allowPackage && r.OneIn(3, "var.package") {
		q.Package = "pk"
		nb := map[string]string{}
		for k, v := range back {
			nb["pk."+k] = v
		}
		back = nb
		desc += "package "
	}
	return Variant{Prog: q, PredBack: back, Desc: desc}
}
