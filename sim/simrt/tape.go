//go:build verifsim

package simrt

// Tape is the single source of choices of a run. In record mode values come
// from a PRNG seeded by the run seed; in replay mode they are read from a
// recorded tape (clipped to the asked range, zero once exhausted). Zero is by
// construction the simplest choice everywhere, which is what makes the tape
// shrinkable.
type Tape struct {
	rng    uint64
	ctr    uint64
	replay bool
	in     []uint32
	pos    int
	Rec    []Entry
	// Marks are indexes into Rec where a structural unit (operation, rule,
	// fact, fault) starts; used by the shrinker to drop whole units.
	Marks []int
}

// Entry is one recorded choice.
type Entry struct {
	Label string `json:"l"`
	N     int    `json:"n"`
	V     int    `json:"v"`
}

// NewTape returns a recording tape for seed.
func NewTape(seed uint64) *Tape { return &Tape{rng: seed} }

// ReplayTape returns a tape that replays vals.
func ReplayTape(vals []uint32) *Tape { return &Tape{replay: true, in: vals} }

// Choose returns a value in [0,n).
func (t *Tape) Choose(n int, label string) int {
	if n <= 1 {
		// still recorded, so that tapes stay aligned when n depends on state
		t.Rec = append(t.Rec, Entry{label, n, 0})
		if t.replay {
			t.pos++
		}
		return 0
	}
	var v int
	if t.replay {
		if t.pos < len(t.in) {
			v = int(t.in[t.pos])
			if v >= n {
				v = v % n
			}
		}
		t.pos++
	} else {
		t.ctr++
		v = int(splitmix(t.rng^splitmix(t.ctr)) % uint64(n))
	}
	t.Rec = append(t.Rec, Entry{label, n, v})
	return v
}

// Mark notes that a structural unit starts at the current position.
func (t *Tape) Mark() { t.Marks = append(t.Marks, len(t.Rec)) }

// Values returns the recorded values.
func (t *Tape) Values() []uint32 {
	out := make([]uint32, len(t.Rec))
	for i, e := range t.Rec {
		out[i] = uint32(e.V)
	}
	return out
}
