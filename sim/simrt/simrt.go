//go:build verifsim

// Package simrt is the simulator runtime that instrumented mangle code calls
// into: owned map iteration order, simulated clock, step budget, cooperative
// scheduler. One Run is active per process at a time.
package simrt

import (
	"os"
	"fmt"
	"iter"
	"slices"
	"sort"
	"time"
)

// Order policies for map iteration.
const (
	OrderAsc = iota
	OrderDesc
	OrderRotate
	OrderShuffle
	OrderRevRotate
	NumOrderPolicies
)

var OrderNames = []string{"asc", "desc", "rotate", "shuffle", "revrotate"}

// StepLimit is the panic value raised when a run exceeds its step budget.
type StepLimit struct{ Steps uint64 }

// Run is the state of one simulated execution.
type Run struct {
	Tape *Tape

	OrderPolicy int
	OrderSeed   uint64
	MapEvents   uint64 // map range events with >= 2 keys
	MapEvents1  uint64 // all map range events

	Steps   uint64
	StepCap uint64
	quiet   int // > 0 while the simulator itself calls into instrumented code (MapSeq sorting keys)

	ClockSeed  uint64
	ClockReads uint64
	clock      time.Time
	ClockStart time.Time

	hash  uint64
	Trace []string
	// TraceCap bounds the number of kept trace lines (hash covers all).
	TraceCap int

	Probes map[string]int
	Faults map[string]int

	seq uint64

	Sched *Sched
}

// Cur is the active run (nil outside runs: instrumented code then behaves natively).
var Cur *Run

// Epoch is the start of simulated time.
var Epoch = time.Date(2024, 3, 1, 12, 0, 0, 0, time.UTC)

// NewRun creates a run reading its choices from tape.
func NewRun(tape *Tape) *Run {
	r := &Run{Tape: tape, StepCap: 50_000_000, TraceCap: 400, hash: 1469598103934665603,
		Probes: map[string]int{}, Faults: map[string]int{}, clock: Epoch, ClockStart: Epoch}
	return r
}

// Hash returns the trace hash so far.
func (r *Run) Hash() uint64 { return r.hash }

func (r *Run) mix(x uint64) {
	r.hash ^= x
	r.hash *= 1099511628211
	r.hash ^= r.hash >> 29
}

func (r *Run) mixString(s string) {
	h := r.hash
	for i := 0; i < len(s); i++ {
		h ^= uint64(s[i])
		h *= 1099511628211
	}
	r.hash = h
}

// Logf records a trace event (always hashed, kept up to TraceCap lines).
func (r *Run) Logf(format string, args ...any) {
	s := fmt.Sprintf(format, args...)
	r.mixString(s)
	if len(r.Trace) < r.TraceCap {
		r.Trace = append(r.Trace, s)
	} else if len(r.Trace) == r.TraceCap {
		r.Trace = append(r.Trace, "... (trace truncated; hash covers everything)")
	}
}

// Probe counts a "rare condition hit" marker.
func (r *Run) Probe(name string) { r.Probes[name]++ }

// Fault counts an injected fault that actually fired.
func (r *Run) Fault(kind string) { r.Faults[kind]++ }

// Seq returns the next global event sequence number.
func (r *Run) Seq() uint64 { r.seq++; return r.seq }

// Choose draws from the tape and hashes the decision.
func (r *Run) Choose(n int, label string) int {
	v := r.Tape.Choose(n, label)
	r.mix(uint64(v)<<20 ^ uint64(n))
	return v
}

// Bool is Choose(2) != 0 with probability 1/2.
func (r *Run) Bool(label string) bool { return r.Choose(2, label) == 1 }

// OneIn returns true with probability 1/n; 0 (false) is the simple choice.
func (r *Run) OneIn(n int, label string) bool { return r.Choose(n, label) == n-1 }

// ---------------------------------------------------------------------------
// step budget and yields

// yieldLog, if MGSIM_YIELDLOG names a file, receives every yield site in
// order (debugging aid for the determinism self-test; not part of the trace).
var yieldLog = func() *os.File {
	if p := os.Getenv("MGSIM_YIELDLOG"); p != "" {
		f, _ := os.Create(p)
		return f
	}
	return nil
}()

// Yield is inserted at function entries (and statement boundaries in store code).
func Yield(site string) {
	r := Cur
	if r == nil || r.quiet > 0 {
		return
	}
	r.Steps++
	if yieldLog != nil {
		fmt.Fprintf(yieldLog, "%d %s\n", r.Steps, site)
	}
	if r.Steps > r.StepCap {
		panic(StepLimit{r.Steps})
	}
	if r.Sched != nil {
		r.Sched.onYield(site)
	}
}

// Global marks an access to a written package-level variable.
func Global(id string, write bool) {
	r := Cur
	if r == nil || r.Sched == nil || r.quiet > 0 {
		return
	}
	r.Sched.onGlobal(id, write)
}

// ---------------------------------------------------------------------------
// clock

var clockDeltas = []time.Duration{0, 1, time.Microsecond, time.Second, time.Hour, 24 * time.Hour, -time.Second, -time.Hour, 37 * time.Millisecond}

// Now is the simulated replacement for time.Now.
func Now() time.Time {
	r := Cur
	if r == nil {
		return time.Now()
	}
	r.ClockReads++
	d := clockDeltas[splitmix(r.ClockSeed+r.ClockReads)%uint64(len(clockDeltas))]
	if r.ClockSeed == 0 {
		d = time.Millisecond
	}
	r.clock = r.clock.Add(d)
	r.mix(uint64(r.clock.UnixNano()))
	return r.clock
}

// Since is the simulated replacement for time.Since (never negative, like the
// monotonic clock reading behind the real one).
func Since(t time.Time) time.Duration {
	if Cur == nil {
		return time.Since(t)
	}
	d := Now().Sub(t)
	if d < 0 {
		d = 0
	}
	return d
}

// SimNow returns the current simulated instant without advancing it.
func (r *Run) SimNow() time.Time { return r.clock }

// ---------------------------------------------------------------------------
// map iteration

type hasher interface{ Hash() uint64 }

func keyString(k any) string {
	switch x := k.(type) {
	case string:
		return x
	case fmt.Stringer:
		s := fmt.Sprintf("%T|%s", k, x.String())
		if h, ok := k.(hasher); ok {
			s += fmt.Sprintf("|%x", h.Hash())
		}
		return s
	default:
		return fmt.Sprintf("%T|%v", k, k)
	}
}

func sortKeys[K comparable](keys []K) {
	switch ks := any(keys).(type) {
	case []uint64:
		slices.Sort(ks)
	case []string:
		slices.Sort(ks)
	case []int:
		slices.Sort(ks)
	case []uint16:
		slices.Sort(ks)
	case []int64:
		slices.Sort(ks)
	case []int32:
		slices.Sort(ks)
	default:
		strs := make([]string, len(keys))
		for i, k := range keys {
			strs[i] = keyString(k)
		}
		sort.Sort(&byStr[K]{keys, strs})
	}
}

type byStr[K any] struct {
	keys []K
	strs []string
}

func (b *byStr[K]) Len() int           { return len(b.keys) }
func (b *byStr[K]) Less(i, j int) bool { return b.strs[i] < b.strs[j] }
func (b *byStr[K]) Swap(i, j int) {
	b.keys[i], b.keys[j] = b.keys[j], b.keys[i]
	b.strs[i], b.strs[j] = b.strs[j], b.strs[i]
}

func siteHash(s string) uint64 {
	var h uint64 = 14695981039346656037
	for i := 0; i < len(s); i++ {
		h ^= uint64(s[i])
		h *= 1099511628211
	}
	return h
}

// MapSeq is the simulator-owned replacement for ranging over a map. It
// yields the keys that are present at loop start in an order decided by the
// run's policy; keys deleted meanwhile are skipped, keys added meanwhile are
// not produced — both within what the Go spec allows a map range to do.
func MapSeq[M ~map[K]V, K comparable, V any](site string, m M) iter.Seq2[K, V] {
	return func(yield func(K, V) bool) {
		r := Cur
		if r == nil {
			for k, v := range m {
				if !yield(k, v) {
					return
				}
			}
			return
		}
		r.MapEvents1++
		n := len(m)
		if n == 0 {
			return
		}
		if n == 1 {
			for k, v := range m {
				if !yield(k, v) {
					return
				}
			}
			return
		}
		keys := make([]K, 0, n)
		for k := range m {
			keys = append(keys, k)
		}
		// Sorting asks the keys for their String()/Hash(), which are
		// instrumented functions of the code under test, in an order that
		// depends on the runtime's own iteration order above: those calls
		// must neither count as steps nor be scheduling points.
		r.quiet++
		sortKeys(keys)
		r.quiet--
		r.MapEvents++
		ev := r.MapEvents
		switch r.OrderPolicy {
		case OrderAsc:
		case OrderDesc:
			slices.Reverse(keys)
		case OrderRotate:
			rot := int((ev + r.OrderSeed) % uint64(n))
			keys = append(keys[rot:], keys[:rot]...)
		case OrderRevRotate:
			slices.Reverse(keys)
			rot := int((ev + r.OrderSeed) % uint64(n))
			keys = append(keys[rot:], keys[:rot]...)
		case OrderShuffle:
			s := splitmix(r.OrderSeed ^ ev*0x9E3779B97F4A7C15)
			for i := n - 1; i > 0; i-- {
				s = splitmix(s)
				j := int(s % uint64(i+1))
				keys[i], keys[j] = keys[j], keys[i]
			}
		}
		r.mix(siteHash(site) ^ uint64(n)<<48)
		for _, k := range keys {
			v, ok := m[k]
			if !ok {
				continue
			}
			if !yield(k, v) {
				return
			}
		}
	}
}

func splitmix(x uint64) uint64 {
	x += 0x9E3779B97F4A7C15
	z := x
	z = (z ^ (z >> 30)) * 0xBF58476D1CE4E5B9
	z = (z ^ (z >> 27)) * 0x94D049BB133111EB
	return z ^ (z >> 31)
}

// Mix combines integers into a seed.
func Mix(a ...uint64) uint64 {
	var h uint64 = 0x243F6A8885A308D3
	for _, x := range a {
		h = splitmix(h ^ x)
	}
	return h
}
