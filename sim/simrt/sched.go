//go:build verifsim

package simrt

import (
	"fmt"
	"runtime/debug"
	"sort"
	"strings"
)

// Sched is the cooperative scheduler: tasks are real goroutines, exactly one
// of which runs at a time (it holds the baton); every switch is decided by a
// tape choice.
type Sched struct {
	r     *Run
	Tasks []*Task
	cur   *Task

	// preemption points: yield counts at which the running task is preempted
	preemptAt []uint64
	Yields    uint64
	// SyncSwitchOneIn: at a synchronisation point switch away with prob 1/n
	// (n = 1: always draw a fresh runnable task).
	SyncSwitchOneIn int

	Switches     int
	Deadlock     bool
	DeadlockInfo string
	mainWake     chan struct{}
	aborting     bool

	ilHash uint64 // hash of the interleaving (task, site) at switch points

	// lockset bookkeeping for Global()
	globals map[string]*globalState
	Races   []string
}

type globalState struct {
	// candidate lockset (intersection of locks held on every access so far)
	lockset   map[string]bool
	init      bool
	firstTask int
	shared    bool
	written   bool
}

// Task is one simulated thread.
type Task struct {
	ID      int
	Name    string
	wake    chan struct{}
	Done    bool
	Blocked func() bool // non-nil: runnable only when it returns true
	BlockOn string
	aborted bool
	// Held maps lock name -> mode ("r"/"w") -> count
	Held map[string]int
	// Panic is the recovered panic value of the task, if any
	Panic      any
	PanicStack string
}

type abortTask struct{}

// NewSched attaches a scheduler to the run.
func (r *Run) NewSched() *Sched {
	s := &Sched{r: r, mainWake: make(chan struct{}), SyncSwitchOneIn: 1, globals: map[string]*globalState{}, ilHash: 1469598103934665603}
	return s
}

// SetPreemptions installs preemption points (yield counts).
func (s *Sched) SetPreemptions(at []uint64) {
	s.preemptAt = append([]uint64(nil), at...)
	sort.Slice(s.preemptAt, func(i, j int) bool { return s.preemptAt[i] < s.preemptAt[j] })
}

// InterleavingHash identifies the interleaving taken.
func (s *Sched) InterleavingHash() uint64 { return s.ilHash }

// CurTask returns the running task (nil outside RunTasks).
func (s *Sched) CurTask() *Task { return s.cur }

// RunTasks runs fns as concurrent simulated tasks until all are done, a
// deadlock is detected or the run is aborted. It must be called from the
// harness goroutine (which is not a task).
func (s *Sched) RunTasks(names []string, fns []func()) {
	r := s.r
	s.Tasks = nil
	for i := range fns {
		t := &Task{ID: i, Name: names[i], wake: make(chan struct{}), Held: map[string]int{}}
		s.Tasks = append(s.Tasks, t)
	}
	r.Sched = s
	for i, fn := range fns {
		t := s.Tasks[i]
		fn := fn
		go func() {
			<-t.wake
			func() {
				defer func() {
					if p := recover(); p != nil {
						if _, ok := p.(abortTask); ok {
							return
						}
						t.Panic = p
						t.PanicStack = string(debug.Stack())
					}
				}()
				if t.aborted {
					return
				}
				fn()
			}()
			t.Done = true
			s.taskExit(t)
		}()
	}
	// start
	first := s.pick(nil, "sched.first")
	s.cur = first
	first.wake <- struct{}{}
	<-s.mainWake
	// all done or aborted: make sure every goroutine has finished
	for _, t := range s.Tasks {
		if !t.Done {
			t.aborted = true
			s.cur = t
			t.wake <- struct{}{}
			<-s.mainWake
		}
	}
	s.cur = nil
	r.Sched = nil
}

func (s *Sched) runnable() []*Task {
	var out []*Task
	for _, t := range s.Tasks {
		if t.Done {
			continue
		}
		if t.Blocked != nil && !t.Blocked() {
			continue
		}
		out = append(out, t)
	}
	return out
}

// pick chooses the next task; the current one (if runnable) is option 0 so
// that a zero tape value means "no switch".
func (s *Sched) pick(cur *Task, label string) *Task {
	rs := s.runnable()
	if len(rs) == 0 {
		return nil
	}
	if cur != nil {
		for i, t := range rs {
			if t == cur {
				rs[0], rs[i] = rs[i], rs[0]
				break
			}
		}
	}
	return rs[s.r.Choose(len(rs), label)]
}

func (s *Sched) taskExit(t *Task) {
	if s.aborting || t.aborted {
		s.mainWake <- struct{}{}
		return
	}
	if t.Panic != nil {
		// a panic in one task ends the run
		s.abortAll()
		return
	}
	next := s.pick(nil, "sched.exit")
	if next == nil {
		allDone := true
		for _, x := range s.Tasks {
			if !x.Done {
				allDone = false
			}
		}
		if !allDone {
			s.noteDeadlock()
		}
		s.mainWake <- struct{}{}
		return
	}
	s.switchTo(next, "exit")
}

func (s *Sched) abortAll() {
	s.aborting = true
	s.mainWake <- struct{}{}
}

func (s *Sched) noteDeadlock() {
	s.Deadlock = true
	var parts []string
	for _, t := range s.Tasks {
		if !t.Done {
			parts = append(parts, fmt.Sprintf("%s blocked on %s holding %v", t.Name, t.BlockOn, heldList(t)))
		}
	}
	s.DeadlockInfo = strings.Join(parts, "; ")
	s.r.Logf("DEADLOCK %s", s.DeadlockInfo)
}

func heldList(t *Task) []string {
	var out []string
	for k, n := range t.Held {
		if n > 0 {
			out = append(out, k)
		}
	}
	sort.Strings(out)
	return out
}

// switchTo hands the baton from the calling goroutine to next. If the caller
// is a live task it then waits for the baton to come back.
func (s *Sched) switchTo(next *Task, why string) {
	me := s.cur
	s.Switches++
	s.cur = next
	next.wake <- struct{}{}
	if me != nil && !me.Done {
		<-me.wake
		if me.aborted {
			panic(abortTask{})
		}
	}
}

func (s *Sched) noteIL(site string) {
	h := s.ilHash
	h ^= uint64(s.cur.ID) + 1
	h *= 1099511628211
	h ^= siteHash(site)
	h *= 1099511628211
	s.ilHash = h
}

// SyncPoint is called by simsync and harness wrappers at synchronisation
// points; the scheduler may switch to another runnable task here.
func (s *Sched) SyncPoint(site string) {
	me := s.cur
	if me == nil || s.aborting || me.aborted {
		return
	}
	s.noteIL(site)
	if s.SyncSwitchOneIn > 1 && s.r.Choose(s.SyncSwitchOneIn, "sched.sync?") != s.SyncSwitchOneIn-1 {
		return
	}
	next := s.pick(me, "sched.sync")
	if next != nil && next != me {
		s.r.Logf("switch %s->%s at %s", me.Name, next.Name, site)
		s.switchTo(next, site)
	}
}

// onYield is called at every instrumented yield; acts only at preemption points.
func (s *Sched) onYield(site string) {
	me := s.cur
	if me == nil || s.aborting || me.aborted {
		return
	}
	s.Yields++
	if len(s.preemptAt) == 0 || s.Yields < s.preemptAt[0] {
		return
	}
	for len(s.preemptAt) > 0 && s.preemptAt[0] <= s.Yields {
		s.preemptAt = s.preemptAt[1:]
	}
	// forced preemption: pick among the *other* runnable tasks
	rs := s.runnable()
	var others []*Task
	for _, t := range rs {
		if t != me {
			others = append(others, t)
		}
	}
	if len(others) == 0 {
		return
	}
	next := others[s.r.Choose(len(others), "sched.preempt")]
	s.noteIL(site)
	s.r.Logf("preempt %s->%s at %s (yield %d)", me.Name, next.Name, site, s.Yields)
	s.r.Probe("preemption")
	s.switchTo(next, site)
}

// Block parks the current task until cond() holds. Returns false if no
// scheduler is active (the caller must then treat the situation as a
// self-deadlock).
func (s *Sched) Block(on string, cond func() bool) {
	me := s.cur
	if me == nil {
		panic("simrt: Block outside a task")
	}
	if s.aborting || me.aborted {
		panic(abortTask{})
	}
	me.Blocked = cond
	me.BlockOn = on
	for {
		next := s.pick(nil, "sched.block")
		if next == nil {
			s.noteDeadlock()
			s.aborting = true
			me.aborted = true
			// hand control to main, which aborts everyone (including us)
			s.mainWake <- struct{}{}
			<-me.wake
			panic(abortTask{})
		}
		if next == me {
			break
		}
		s.r.Logf("block %s on %s -> %s", me.Name, on, next.Name)
		s.switchTo(next, "block")
		if cond() {
			break
		}
	}
	me.Blocked = nil
	me.BlockOn = ""
}

// Aborting reports whether the run is being torn down (simsync operations
// become no-ops then).
func (s *Sched) Aborting() bool {
	return s.aborting || (s.cur != nil && s.cur.aborted)
}

// LockHeld records lock acquisition/release for lockset analysis.
func (s *Sched) LockHeld(name string, delta int) {
	if s.cur == nil {
		return
	}
	s.cur.Held[name] += delta
}

// HeldLocks returns the names of locks the current task holds.
func (s *Sched) HeldLocks() []string {
	if s.cur == nil {
		return nil
	}
	return heldList(s.cur)
}

func (s *Sched) onGlobal(id string, write bool) {
	me := s.cur
	if me == nil || s.aborting {
		return
	}
	g := s.globals[id]
	held := map[string]bool{}
	for _, k := range heldList(me) {
		held[k] = true
		// a write lock also counts as the read lock
		if strings.HasSuffix(k, "#w") {
			held[strings.TrimSuffix(k, "#w")+"#r"] = true
		}
	}
	if g == nil {
		g = &globalState{lockset: held, init: true, firstTask: me.ID}
		g.written = write
		s.globals[id] = g
		return
	}
	if me.ID != g.firstTask {
		g.shared = true
	}
	for k := range g.lockset {
		if !held[k] {
			delete(g.lockset, k)
		}
	}
	if write {
		g.written = true
	}
	if g.shared && g.written {
		// a write must be protected by a common write lock; reads by read or write
		ok := false
		for k := range g.lockset {
			_ = k
			ok = true
		}
		if !ok {
			msg := fmt.Sprintf("global %s accessed by several tasks with empty common lockset (write=%v by %s)", id, write, me.Name)
			if len(s.Races) < 5 {
				s.Races = append(s.Races, msg)
			}
		}
	}
}
