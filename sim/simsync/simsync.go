//go:build verifsim

// Package simsync replaces package sync inside instrumented mangle code. All
// operations are cooperative: they hand the baton to the simulator's
// scheduler, which decides who runs next. Outside a scheduled run (a single
// task) the operations are plain bookkeeping and a wait that could never be
// satisfied is reported as a self-deadlock.
package simsync

import (
	"fmt"

	"codeberg.org/TauCeti/mangle-go/zzsim/simrt"
)

// Locker mirrors sync.Locker.
type Locker interface {
	Lock()
	Unlock()
}

var (
	lockEpoch *simrt.Run
	lockCtr   int
)

func lockName(id *int, ep **simrt.Run) string {
	r := simrt.Cur
	if *ep != r || *id == 0 {
		if lockEpoch != r {
			lockEpoch = r
			lockCtr = 0
		}
		lockCtr++
		*id = lockCtr
		*ep = r
	}
	return fmt.Sprintf("m%d", *id)
}

// SelfDeadlock is the panic raised when a single task waits on itself.
type SelfDeadlock struct{ What string }

func sched() *simrt.Sched {
	if simrt.Cur == nil {
		return nil
	}
	return simrt.Cur.Sched
}

// RWMutex has the semantics of sync.RWMutex, including writer preference: a
// pending Lock blocks new readers.
type RWMutex struct {
	writer      bool
	readers     int
	pendingW    int
	id          int
	ep          *simrt.Run
	WaitedWrite int
}

func (m *RWMutex) Lock() {
	s := sched()
	if s == nil {
		if m.writer || m.readers > 0 {
			if simrt.Cur != nil {
				panic(SelfDeadlock{"Lock on a held RWMutex"})
			}
		}
		m.writer = true
		return
	}
	if s.Aborting() {
		return
	}
	name := lockName(&m.id, &m.ep)
	s.SyncPoint("Lock")
	if m.writer || m.readers > 0 {
		m.pendingW++
		simrt.Cur.Probe("writer-waited")
		s.Block("Lock "+name, func() bool { return !m.writer && m.readers == 0 })
		m.pendingW--
	}
	m.writer = true
	s.LockHeld(name+"#w", 1)
}

func (m *RWMutex) TryLock() bool {
	if m.writer || m.readers > 0 {
		return false
	}
	m.Lock()
	return true
}

func (m *RWMutex) Unlock() {
	s := sched()
	if s == nil {
		m.writer = false
		return
	}
	if s.Aborting() {
		return
	}
	if !m.writer {
		panic("simsync: Unlock of unlocked RWMutex")
	}
	m.writer = false
	s.LockHeld(lockName(&m.id, &m.ep)+"#w", -1)
	s.SyncPoint("Unlock")
}

func (m *RWMutex) RLock() {
	s := sched()
	if s == nil {
		if m.writer && simrt.Cur != nil {
			panic(SelfDeadlock{"RLock on a write-locked RWMutex"})
		}
		m.readers++
		return
	}
	if s.Aborting() {
		return
	}
	name := lockName(&m.id, &m.ep)
	s.SyncPoint("RLock")
	if m.writer || m.pendingW > 0 {
		if !m.writer {
			simrt.Cur.Probe("reader-waited-behind-pending-writer")
		} else {
			simrt.Cur.Probe("reader-waited")
		}
		s.Block("RLock "+name, func() bool { return !m.writer && m.pendingW == 0 })
	}
	m.readers++
	s.LockHeld(name+"#r", 1)
}

func (m *RWMutex) TryRLock() bool {
	if m.writer || m.pendingW > 0 {
		return false
	}
	m.RLock()
	return true
}

func (m *RWMutex) RUnlock() {
	s := sched()
	if s == nil {
		m.readers--
		return
	}
	if s.Aborting() {
		return
	}
	if m.readers <= 0 {
		panic("simsync: RUnlock of unlocked RWMutex")
	}
	m.readers--
	s.LockHeld(lockName(&m.id, &m.ep)+"#r", -1)
	s.SyncPoint("RUnlock")
}

// RLocker mirrors sync.RWMutex.RLocker.
func (m *RWMutex) RLocker() Locker { return (*rlocker)(m) }

type rlocker RWMutex

func (r *rlocker) Lock()   { (*RWMutex)(r).RLock() }
func (r *rlocker) Unlock() { (*RWMutex)(r).RUnlock() }

// Mutex has the semantics of sync.Mutex.
type Mutex struct {
	locked bool
	id     int
	ep     *simrt.Run
}

func (m *Mutex) Lock() {
	s := sched()
	if s == nil {
		if m.locked && simrt.Cur != nil {
			panic(SelfDeadlock{"Lock on a held Mutex"})
		}
		m.locked = true
		return
	}
	if s.Aborting() {
		return
	}
	name := lockName(&m.id, &m.ep)
	s.SyncPoint("Lock")
	if m.locked {
		s.Block("Lock "+name, func() bool { return !m.locked })
	}
	m.locked = true
	s.LockHeld(name+"#w", 1)
}

func (m *Mutex) TryLock() bool {
	if m.locked {
		return false
	}
	m.Lock()
	return true
}

func (m *Mutex) Unlock() {
	s := sched()
	if s == nil {
		m.locked = false
		return
	}
	if s.Aborting() {
		return
	}
	if !m.locked {
		panic("simsync: Unlock of unlocked Mutex")
	}
	m.locked = false
	s.LockHeld(lockName(&m.id, &m.ep)+"#w", -1)
	s.SyncPoint("Unlock")
}

// Once mirrors sync.Once. The function runs to completion under the baton of
// the first caller; later callers wait for it.
type Once struct {
	done    bool
	running bool
}

func (o *Once) Do(f func()) {
	if o.done {
		return
	}
	s := sched()
	if o.running {
		if s == nil {
			panic(SelfDeadlock{"Once.Do re-entered"})
		}
		s.Block("Once", func() bool { return o.done })
		return
	}
	o.running = true
	defer func() { o.done = true; o.running = false }()
	f()
}

// Pool mirrors sync.Pool. Which pooled object Get returns (most recently put,
// another one, or a fresh one) is a tape choice; the real pool's reuse is
// nondeterministic and tests rarely see the reuse path.
type Pool struct {
	New   func() any
	items []any
	ep    *simrt.Run
}

func (p *Pool) Get() any {
	r := simrt.Cur
	if r == nil {
		if p.New != nil {
			return p.New()
		}
		return nil
	}
	if s := r.Sched; s != nil && !s.Aborting() {
		s.SyncPoint("Pool.Get")
	}
	if p.ep != r {
		// pooled objects do not survive into another run (keeps runs independent)
		p.items = nil
		p.ep = r
	}
	n := len(p.items)
	if n > 0 {
		// 0 = most recently put, 1..n-1 = older ones, n = fresh
		c := r.Choose(n+1, "pool.get")
		if c < n {
			i := n - 1 - c
			x := p.items[i]
			p.items = append(p.items[:i], p.items[i+1:]...)
			r.Probe("pool-reuse")
			return x
		}
	}
	if p.New != nil {
		return p.New()
	}
	return nil
}

func (p *Pool) Put(x any) {
	r := simrt.Cur
	if r == nil {
		return
	}
	if p.ep != r {
		p.items = nil
		p.ep = r
	}
	if s := r.Sched; s != nil && !s.Aborting() {
		s.SyncPoint("Pool.Put")
	}
	if len(p.items) < 8 {
		p.items = append(p.items, x)
	}
}

// WaitGroup is a minimal cooperative sync.WaitGroup.
type WaitGroup struct{ n int }

func (w *WaitGroup) Add(d int) { w.n += d }
func (w *WaitGroup) Done()     { w.n-- }
func (w *WaitGroup) Wait() {
	s := sched()
	if w.n <= 0 {
		return
	}
	if s == nil {
		panic(SelfDeadlock{"WaitGroup.Wait with no other task"})
	}
	s.Block("WaitGroup", func() bool { return w.n <= 0 })
}
