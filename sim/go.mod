module simfiles_copied_into_scratch_tree

go 1.26
