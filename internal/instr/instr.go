// Package instr rewrites a scratch copy of google/mangle so that every source
// of nondeterminism the properties depend on goes through the simulator
// runtime (zzsim/simrt, zzsim/simsync). See DESIGN.md §3.2.
//
// Rewrites (expression level, semantics preserving):
//  1. range over a map            -> range simrt.MapSeq(site, m)
//  2. import "sync"               -> import sync ".../zzsim/simsync"
//  3. time.Now / time.Since       -> simrt.Now / simrt.Since
//  4. simrt.Yield(site) at the entry of every function, and before every
//     statement of the functions in factstore/factstore.go,
//     factstore/temporal.go and factstore/interval_tree.go
//  5. simrt.Global(id, write) before statements that touch a written
//     package-level variable of a mangle package
package instr

import (
	"bytes"
	"fmt"
	"go/ast"
	"go/format"
	"go/token"
	"go/types"
	"os"
	"path/filepath"
	"sort"
	"strconv"
	"strings"

	"golang.org/x/tools/go/ast/astutil"
	"golang.org/x/tools/go/packages"
)

// Stats reports what the instrumenter did.
type Stats struct {
	Packages    int
	Files       int
	MapRanges   int
	SyncImports int
	TimeCalls   int
	FuncYields  int
	StmtYields  int
	GlobalMarks int
	Globals     []string
	MapKeyTypes map[string]int
}

const simrtPath = "/zzsim/simrt"
const simsyncPath = "/zzsim/simsync"

// stmtYieldFiles get a yield before every statement: store code that C18
// interleaves at statement granularity, and the file readers, whose loops are
// driven by counts taken from the (possibly corrupted) input - there every
// iteration has to count as a step, or a loop that only spins is never
// stopped by the step cap.
var stmtYieldFiles = map[string]bool{
	"factstore/factstore.go":     true,
	"factstore/temporal.go":      true,
	"factstore/interval_tree.go": true,
	"factstore/simplecolumn.go":  true,
}

// Instrument rewrites the module rooted at dir in place.
func Instrument(dir string, env []string) (*Stats, error) {
	modPath, err := modulePath(filepath.Join(dir, "go.mod"))
	if err != nil {
		return nil, err
	}
	cfg := &packages.Config{
		Mode: packages.NeedName | packages.NeedFiles | packages.NeedCompiledGoFiles | packages.NeedSyntax |
			packages.NeedTypes | packages.NeedTypesInfo | packages.NeedImports,
		Dir:   dir,
		Env:   env,
		Tests: false,
	}
	pkgs, err := packages.Load(cfg, "./...")
	if err != nil {
		return nil, fmt.Errorf("load: %w", err)
	}
	var errs []string
	for _, p := range pkgs {
		for _, e := range p.Errors {
			errs = append(errs, e.Error())
		}
	}
	if len(errs) > 0 {
		return nil, fmt.Errorf("type errors in tree: %s", strings.Join(errs, "; "))
	}
	st := &Stats{MapKeyTypes: map[string]int{}}

	// Pass A: find written package-level variables (set W).
	written := map[types.Object]bool{}
	for _, p := range pkgs {
		if strings.Contains(p.PkgPath, "/zzsim") {
			continue
		}
		for _, f := range p.Syntax {
			for _, d := range f.Decls {
				fd, ok := d.(*ast.FuncDecl)
				if !ok || fd.Body == nil || fd.Name.Name == "init" {
					continue
				}
				ast.Inspect(fd.Body, func(n ast.Node) bool {
					mark := func(e ast.Expr) {
						if id := rootIdent(e); id != nil {
							if obj, ok := p.TypesInfo.Uses[id].(*types.Var); ok && isPkgLevel(obj) && strings.HasPrefix(obj.Pkg().Path(), modPath) {
								written[obj] = true
							}
						}
					}
					switch s := n.(type) {
					case *ast.AssignStmt:
						for _, l := range s.Lhs {
							mark(l)
						}
					case *ast.IncDecStmt:
						mark(s.X)
					case *ast.UnaryExpr:
						// address taken: in general not treated as a write, but a
						// pointer to a package-level array is a mutable alias
						if s.Op == token.AND && isArrayVar(p.TypesInfo, s.X) {
							mark(s.X)
						}
					case *ast.SliceExpr:
						// buf := scratch[:] - a slice of a package-level array is a
						// mutable alias of it (a scratch buffer shared by all callers)
						if isArrayVar(p.TypesInfo, s.X) {
							mark(s.X)
						}
					case *ast.CallExpr:
						for _, a := range filledArgs(s) {
							mark(a)
						}
					}
					return true
				})
			}
		}
	}
	for obj := range written {
		st.Globals = append(st.Globals, obj.Pkg().Path()+"."+obj.Name())
	}
	sort.Strings(st.Globals)

	for _, p := range pkgs {
		if strings.Contains(p.PkgPath, "/zzsim") {
			continue
		}
		st.Packages++
		for i, f := range p.Syntax {
			fname := p.CompiledGoFiles[i]
			rel, _ := filepath.Rel(dir, fname)
			if strings.HasSuffix(fname, "_test.go") {
				continue
			}
			changed := instrumentFile(p, f, rel, modPath, written, st)
			if !changed {
				continue
			}
			// Drop comments (keeping anything above the package clause, e.g.
			// build constraints): the printer places comments by position
			// and inserted nodes have none.
			var keep []*ast.CommentGroup
			for _, cg := range f.Comments {
				if cg.End() < f.Package {
					keep = append(keep, cg)
				}
			}
			f.Comments = keep
			var buf bytes.Buffer
			if err := format.Node(&buf, p.Fset, f); err != nil {
				return nil, fmt.Errorf("format %s: %w", rel, err)
			}
			if err := os.WriteFile(fname, buf.Bytes(), 0o644); err != nil {
				return nil, err
			}
			st.Files++
		}
	}
	return st, nil
}

func isPkgLevel(v *types.Var) bool {
	return v.Pkg() != nil && v.Parent() == v.Pkg().Scope() && !v.IsField()
}

// filledArgs returns the sliced operands that a call fills: a buffer handed
// to copy(buf[:], ..), append(buf[:0], ..), binary.*.PutUint64(buf[:], ..),
// strconv.AppendInt(buf[:0], ..), io.ReadFull(r, buf[:]).
func filledArgs(c *ast.CallExpr) []ast.Expr {
	name := ""
	switch f := c.Fun.(type) {
	case *ast.Ident:
		name = f.Name
	case *ast.SelectorExpr:
		name = f.Sel.Name
	}
	builtin := name == "copy" || name == "append"
	if !builtin && !strings.HasPrefix(name, "Put") && !strings.HasPrefix(name, "Append") && !strings.HasPrefix(name, "Read") {
		return nil
	}
	var out []ast.Expr
	for i, a := range c.Args {
		if builtin && i > 0 {
			break
		}
		if sl, ok := a.(*ast.SliceExpr); ok {
			out = append(out, sl.X)
		}
	}
	return out
}

// isArrayVar: e is (a parenthesised) identifier of array type.
func isArrayVar(info *types.Info, e ast.Expr) bool {
	for {
		pe, ok := e.(*ast.ParenExpr)
		if !ok {
			break
		}
		e = pe.X
	}
	id, ok := e.(*ast.Ident)
	if !ok {
		return false
	}
	v, ok := info.Uses[id].(*types.Var)
	if !ok {
		return false
	}
	_, isArr := v.Type().Underlying().(*types.Array)
	return isArr
}

func rootIdent(e ast.Expr) *ast.Ident {
	for {
		switch x := e.(type) {
		case *ast.Ident:
			return x
		case *ast.SelectorExpr:
			// pkg.Var or v.field
			if id, ok := x.X.(*ast.Ident); ok {
				_ = id
			}
			e = x.X
		case *ast.IndexExpr:
			e = x.X
		case *ast.StarExpr:
			e = x.X
		case *ast.ParenExpr:
			e = x.X
		default:
			return nil
		}
	}
}

func modulePath(gomod string) (string, error) {
	b, err := os.ReadFile(gomod)
	if err != nil {
		return "", err
	}
	for _, l := range strings.Split(string(b), "\n") {
		l = strings.TrimSpace(l)
		if strings.HasPrefix(l, "module ") {
			return strings.TrimSpace(strings.TrimPrefix(l, "module ")), nil
		}
	}
	return "", fmt.Errorf("no module line in %s", gomod)
}

func instrumentFile(p *packages.Package, f *ast.File, rel, modPath string, written map[types.Object]bool, st *Stats) bool {
	fset := p.Fset
	info := p.TypesInfo
	changed := false
	needSimrt := false
	site := func(pos token.Pos) string {
		return rel + ":" + strconv.Itoa(fset.Position(pos).Line)
	}
	simrtCall := func(fn string, args ...ast.Expr) *ast.CallExpr {
		needSimrt = true
		return &ast.CallExpr{Fun: &ast.SelectorExpr{X: ast.NewIdent("simrt"), Sel: ast.NewIdent(fn)}, Args: args}
	}
	strLit := func(s string) ast.Expr { return &ast.BasicLit{Kind: token.STRING, Value: strconv.Quote(s)} }

	// 2. sync import
	for _, imp := range f.Imports {
		if imp.Path.Value == `"sync"` {
			imp.Path.Value = strconv.Quote(modPath + simsyncPath)
			if imp.Name == nil {
				imp.Name = ast.NewIdent("sync")
			}
			st.SyncImports++
			changed = true
		}
	}

	// 1 + 3: expression rewrites
	timeUsedElsewhere := false
	astutil.Apply(f, func(c *astutil.Cursor) bool {
		switch n := c.Node().(type) {
		case *ast.RangeStmt:
			if tv, ok := info.Types[n.X]; ok {
				if m, ok := tv.Type.Underlying().(*types.Map); ok {
					st.MapKeyTypes[m.Key().String()]++
					n.X = simrtCall("MapSeq", strLit(site(n.Pos())), n.X)
					st.MapRanges++
					changed = true
				}
			}
		case *ast.CallExpr:
			if sel, ok := n.Fun.(*ast.SelectorExpr); ok {
				if id, ok := sel.X.(*ast.Ident); ok {
					if pn, ok := info.Uses[id].(*types.PkgName); ok && pn.Imported().Path() == "time" {
						if sel.Sel.Name == "Now" || sel.Sel.Name == "Since" {
							n.Fun = &ast.SelectorExpr{X: ast.NewIdent("simrt"), Sel: ast.NewIdent(sel.Sel.Name)}
							needSimrt = true
							st.TimeCalls++
							changed = true
						}
					}
				}
			}
		}
		return true
	}, nil)
	// is "time" still referenced?
	ast.Inspect(f, func(n ast.Node) bool {
		if sel, ok := n.(*ast.SelectorExpr); ok {
			if id, ok := sel.X.(*ast.Ident); ok && id.Name == "time" {
				if pn, ok := info.Uses[id].(*types.PkgName); ok && pn.Imported().Path() == "time" {
					timeUsedElsewhere = true
				}
			}
		}
		return true
	})

	// 4 + 5: yields and global marks
	stmtLevel := stmtYieldFiles[filepath.ToSlash(rel)]
	touches := func(s ast.Stmt) (id string, write bool, ok bool) {
		// Only simple statements are examined (not nested blocks: those are
		// visited on their own).
		var exprs []ast.Expr
		var lhs []ast.Expr
		switch x := s.(type) {
		case *ast.AssignStmt:
			exprs = append(exprs, x.Rhs...)
			lhs = x.Lhs
		case *ast.ExprStmt:
			exprs = append(exprs, x.X)
		case *ast.ReturnStmt:
			exprs = append(exprs, x.Results...)
		case *ast.IncDecStmt:
			lhs = []ast.Expr{x.X}
		case *ast.IfStmt:
			if x.Init != nil {
				if a, ok2 := x.Init.(*ast.AssignStmt); ok2 {
					exprs = append(exprs, a.Rhs...)
				}
			}
			exprs = append(exprs, x.Cond)
		case *ast.DeferStmt:
			return "", false, false
		default:
			return "", false, false
		}
		for _, l := range lhs {
			if rid := rootIdent(l); rid != nil {
				if obj, ok2 := info.Uses[rid].(*types.Var); ok2 && written[obj] {
					return obj.Pkg().Name() + "." + obj.Name(), true, true
				}
			}
			exprs = append(exprs, l)
		}
		found := ""
		foundWrite := false
		for _, e := range exprs {
			ast.Inspect(e, func(n ast.Node) bool {
				if _, isLit := n.(*ast.FuncLit); isLit {
					return false
				}
				switch x := n.(type) {
				case *ast.SliceExpr:
					if isArrayVar(info, x.X) {
						if obj, ok3 := info.Uses[rootIdent(x.X)].(*types.Var); ok3 && written[obj] {
							foundWrite = true
						}
					}
				case *ast.UnaryExpr:
					if x.Op == token.AND && isArrayVar(info, x.X) {
						if obj, ok3 := info.Uses[rootIdent(x.X)].(*types.Var); ok3 && written[obj] {
							foundWrite = true
						}
					}
				}
				if c, isCall := n.(*ast.CallExpr); isCall {
					for _, a := range filledArgs(c) {
						if rid := rootIdent(a); rid != nil {
							if obj, ok3 := info.Uses[rid].(*types.Var); ok3 && written[obj] {
								foundWrite = true
							}
						}
					}
				}
				if idn, ok2 := n.(*ast.Ident); ok2 {
					if obj, ok3 := info.Uses[idn].(*types.Var); ok3 && written[obj] {
						found = obj.Pkg().Name() + "." + obj.Name()
					}
				}
				return true
			})
		}
		if found != "" {
			return found, foundWrite, true
		}
		return "", false, false
	}
	var rewriteBlock func(list []ast.Stmt, inFunc bool) []ast.Stmt
	rewriteBlock = func(list []ast.Stmt, inFunc bool) []ast.Stmt {
		var out []ast.Stmt
		for _, s := range list {
			if inFunc {
				if id, w, ok := touches(s); ok {
					wr := "false"
					if w {
						wr = "true"
					}
					out = append(out, &ast.ExprStmt{X: simrtCall("Global", strLit(id), ast.NewIdent(wr))})
					st.GlobalMarks++
					changed = true
				}
				if stmtLevel {
					if _, isLabeled := s.(*ast.LabeledStmt); !isLabeled {
						out = append(out, &ast.ExprStmt{X: simrtCall("Yield", strLit(site(s.Pos())))})
						st.StmtYields++
						changed = true
					}
				}
			}
			out = append(out, s)
		}
		return out
	}
	var walk func(n ast.Node)
	walk = func(n ast.Node) {
		skip := map[*ast.BlockStmt]bool{}
		ast.Inspect(n, func(x ast.Node) bool {
			switch b := x.(type) {
			case *ast.SwitchStmt:
				skip[b.Body] = true
			case *ast.TypeSwitchStmt:
				skip[b.Body] = true
			case *ast.SelectStmt:
				skip[b.Body] = true
			case *ast.BlockStmt:
				if skip[b] {
					return true
				}
				b.List = rewriteBlock(b.List, true)
			case *ast.CaseClause:
				b.Body = rewriteBlock(b.Body, true)
			case *ast.CommClause:
				b.Body = rewriteBlock(b.Body, true)
			}
			return true
		})
	}
	for _, d := range f.Decls {
		fd, ok := d.(*ast.FuncDecl)
		if !ok || fd.Body == nil {
			continue
		}
		walk(fd.Body)
		name := fd.Name.Name
		if fd.Recv != nil && len(fd.Recv.List) > 0 {
			name = types.ExprString(fd.Recv.List[0].Type) + "." + name
		}
		y := &ast.ExprStmt{X: simrtCall("Yield", strLit(rel+":"+strconv.Itoa(fset.Position(fd.Pos()).Line)+":"+name))}
		fd.Body.List = append([]ast.Stmt{y}, fd.Body.List...)
		st.FuncYields++
		changed = true
	}

	if needSimrt {
		astutil.AddImport(fset, f, modPath+simrtPath)
	}
	if !timeUsedElsewhere {
		// the only uses of package time were the rewritten calls
		for _, imp := range f.Imports {
			if imp.Path.Value == `"time"` {
				astutil.DeleteImport(fset, f, "time")
				break
			}
		}
	}
	return changed
}
