package main

var realAll = []string{"parse (ANTLR runtime + generated parser)", "ast", "symbols", "analysis", "rewrite", "packages", "unionfind", "functional", "builtin", "engine", "factstore", "provenance", "interpreter", "gzip/zstd codecs"}
var stubAll = []string{"map iteration order (simrt.MapSeq)", "sync.RWMutex/Mutex/Pool/Once (simsync)", "time.Now/time.Since (simulated clock)", "goroutine scheduling (baton scheduler)", "io.Reader/io.Writer/opener media (stub streams)"}

// metas: per-property budgets and evidence texts (the rule is also stated in the harness).
var metas = map[string]propMeta{}

func reg(id string, m propMeta) {
	if m.Real == nil {
		m.Real = realAll
	}
	if m.Stub == nil {
		m.Stub = stubAll
	}
	if m.QuickSecs == 0 {
		m.QuickSecs = 60
	}
	if m.ThoroughSecs == 0 {
		m.ThoroughSecs = 900
	}
	metas[id] = m
}

func init() {
	reg("C05", propMeta{Level: "exploration", QuickRuns: 1600, ThoroughRuns: 60000,
		Rule: "one run = one generated program (seeded; recursion, negation, aggregation, comparisons, functions, temporal by swarm flags) evaluated K times (quick 6, thorough 12) under drawn map-order policy x store kind x deterministic-order flag x clause/fact permutation x variable/predicate renaming x package wrapping; oracle: all K canonical fact sets equal and all-or-none fail. Non-trivial: accepted by analysis, >=1 derived fact, >=2 distinct map orders presented with >=2 keys. Distinct = distinct trace hashes.",
		Assumptions: []string{"map-order policies are a handful of permutations per range site, not all n!", "generator fragment only (see DESIGN 3.6)"}})
	reg("C06", propMeta{Level: "exploration", QuickRuns: 8000, ThoroughRuns: 400000,
		Rule: "one run = one store topology (simple/indexed/multi-indexed/multi-indexed-array, concurrent(.), teeing(prefilled base), merged(1-2 disjoint prefilled read stores), temporal adapter with/without instant) x drawn map-order policy x a history of 1-30 (thorough 1-60) operations from {Add, Remove, Contains, GetFacts(pattern), Merge(other store), aborted scan, count} over a universe of 2-4 predicates (p/1 and p/2 share a symbol) and constants of every kind incl. nested structures, filtered to be free of Atom.Hash collisions; the set-of-atoms model is compared after every operation (membership of every universe atom, full scans exactly-once, listing, exact count where documented). Non-trivial: >= 2 state-changing operations. Distinct = distinct trace hashes.",
		Assumptions: []string{"universe atoms with equal Atom.Hash() are excluded from random histories (known finding, covered by fixed probes)", "read stores of a merged store are disjoint, as its documentation advises"}})
	reg("C13", propMeta{Level: "exploration", QuickRuns: 8000, ThoroughRuns: 300000,
		Rule: "one run = a TemporalStore with per-atom interval limit drawn from {1..6, default, unlimited} x map-order policy x insertion mode (random/ascending/descending/zig-zag starts) x a history of 1-40 (thorough 1-80) operations from {Add (point/finite/half-unbounded/eternal/adjacent-by-1ns/invalid), Coalesce, GetFactsAt, GetFactsDuring, ContainsAt, Merge(other store)} on a 0..24 ns timeline over 1-2 predicates with 1-3 atoms each; after every operation the full scan and the pair count are compared with a reference map atom -> interval set; point/range queries pointwise; Coalesce must keep the holds-set at 32 probe instants and leave finite intervals neither overlapping nor adjacent. Non-trivial: >= 3 successful insertions. Distinct = distinct trace hashes.",
		Assumptions: []string{"after Coalesce the model adopts the store's representation once meaning-preservation and non-adjacency have been checked (the statement fixes meaning, not representation)", "an exact duplicate arriving when its atom is at the limit may be answered by the limit error"}})
	reg("C18", propMeta{Level: "exploration", QuickRuns: 6000, ThoroughRuns: 250000,
		Rule: "part A (3/4 of runs): 2-4 simulated client tasks x 2-6 operations each from {Add, Remove, Contains, GetFacts(pattern), Merge(fixed store), EstimateFactCount, ListPredicates} on NewConcurrentFactStore(base) over <= 8 atoms; base is a real store (simple/indexed/multi-indexed/multi-indexed-array, statement-level yields) behind a wrapper that checks the held lock mode and yields at entry and in scan callbacks; the baton scheduler draws every switch at lock/unlock/base/scan points plus 0-3 preemptions at instrumented yields; oracle: porcupine linearizability of the invoke/return history (global event numbers) against a bitmask set model, lock discipline, deadlock, panic. Part B (1/4): 2-4 tasks each parse->analyse->evaluate their own generated program (some with failing parses, pooled lexer/parser objects changing hands, optionally one task calling ast.SetTimezone) under 1-3 (thorough 1-6) function-entry preemptions; oracle: each task's result equals its solo run, lockset on written package-level variables, no deadlock/panic. Non-trivial: >= 1 pair of overlapping operations (A) / >= one switch per task (B). Distinct = distinct interleavings (hash of task,site at every switch point).",
		Assumptions: []string{"cooperative scheduling cannot exhibit hardware-level data races; the lockset discipline stands in for 'no data races'", "ANTLR runtime and Go runtime are not instrumented: preemption happens only at mangle function entries, store statements and sync points"}})
	reg("C19", propMeta{Level: "fault_enumeration", QuickRuns: 6000, ThoroughRuns: 250000,
		Rule: "one run = a generated fact set (1-5 predicates incl. zero-arity, p/1 and p/2, dotted names; constants of every kind: multi-part names, strings with quotes/backslashes/control characters/non-ASCII, bytes, boundary integers, floats, times, durations, nested pairs/lists/maps/structs; optionally an empty predicate listed by a read-only wrapper) written with WriteTo through {plain, gzip, zstd} x {Deterministic on/off} onto a stub writer, read back (a) by ReadInto into a drawn store kind through a stub reader with a drawn delivery schedule (full, random chunks, 1 byte, stutter + data-with-EOF) and (b) through NewSimpleColumnStore(opener)+GetFacts for drawn pattern shapes (all variables / one constant / ground / absent predicate), each GetFacts re-opening the medium; one fault kind per run in half of the runs: write error at a drawn offset (sticky or transient), non-EOF read error at a drawn offset, opener failing on the j-th open. Oracle: err == nil => reloaded set == original set (a reported error is never a violation); Deterministic => bytes equal across store kind, insertion order and map order. Thorough additionally enumerates every fault offset for small media. Non-trivial: >= 2 facts. Distinct = distinct trace hashes.",
		Assumptions: []string{"strings are valid UTF-8 (byte strings are arbitrary)", "fact sets are free of Atom.Hash collisions (known finding under C06)", "torn or corrupted media are judged under C10, not here"}})
	reg("C01", propMeta{Level: "exploration", QuickRuns: 4000, ThoroughRuns: 200000,
		Rule: "one run = one generated safe, stratified, type-correct program with a finite model (1-6 IDB predicates in recursion groups, 1-3 rules each, 1-3 positive atoms per body plus comparisons, (in)equalities, guarded arithmetic, negation against lower groups, structured-data builtins/functions, let-transforms, by swarm flags) over 1-3 EDB predicates with up to 12 facts; parsed, analysed and evaluated by the real engine under a drawn map-order policy x store kind x deterministic-order flag x inline/preloaded facts; oracle: the store's non-internal facts equal, in both directions, the model computed by an independent reference evaluator (stratified naive fixpoint over the generator's own IR). Non-trivial: accepted and >= 1 derived fact. Distinct = distinct trace hashes.",
		Assumptions: []string{"reference evaluator covers the generator's fragment only (DESIGN 3.6)", "runs whose model contains two atoms with equal Atom.Hash are discarded (known finding under C06)"}})
	reg("C20", propMeta{Level: "exploration", QuickRuns: 4000, ThoroughRuns: 200000,
		Rule: "one run = one generated transform-free program (positive and negated atoms, =, !=, comparisons, builtins, function expressions; recursion groups) with its base facts preloaded into two equal SimpleInMemoryStores; EvalProgramNaive and the semi-naive EvalProgram run under the same or different drawn map-order policies; oracle: equal stores (the reference model is only used to say which side is wrong). Programs rejected by either entry point are vacuous. Non-trivial: both accept and >= 1 derived fact. Distinct = distinct trace hashes.",
		Assumptions: []string{"programs that only one evaluator accepts are outside the statement"}})
	reg("C02", propMeta{Level: "exploration", QuickRuns: 4000, ThoroughRuns: 200000,
		Rule: "as C01 with the generator biased to do-transform rules: most rules are `head :- body |> do fn:group_by(keys), let R = reducer`, with 1-2 body atoms over EDB or lower (possibly recursive) groups, reducers count/sum/min/max/avg/collect_distinct (read as a set), several aggregating rules for one head, aggregating and plain rules mixed; oracle: store == reference model, where the reference folds each aggregating rule over the distinct solutions of that rule's own body only; an empty body yields no fact. Non-trivial: >= 1 fact derived through an aggregating rule. Distinct = distinct trace hashes.",
		Assumptions: []string{"no wildcards in aggregated bodies (the statement does not settle whether an anonymous column is part of a solution)", "floating point only through fn:avg over small integers (exact)"}})
}
