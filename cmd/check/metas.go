package main

var realAll = []string{"parse (ANTLR runtime + generated parser)", "ast", "symbols", "analysis", "rewrite", "packages", "unionfind", "functional", "builtin", "engine", "factstore", "provenance", "interpreter", "gzip/zstd codecs"}
var stubAll = []string{"map iteration order (simrt.MapSeq)", "sync.RWMutex/Mutex/Pool/Once (simsync)", "time.Now/time.Since (simulated clock)", "goroutine scheduling (baton scheduler)", "io.Reader/io.Writer/opener media (stub streams)"}

// metas: per-property budgets and evidence texts (the rule is also stated in the harness).
var metas = map[string]propMeta{}

func reg(id string, m propMeta) {
	if m.Real == nil {
		m.Real = realAll
	}
	if m.Stub == nil {
		m.Stub = stubAll
	}
	if m.QuickSecs == 0 {
		m.QuickSecs = 60
	}
	if m.ThoroughSecs == 0 {
		m.ThoroughSecs = 900
	}
	metas[id] = m
}

func init() {
	reg("C05", propMeta{Level: "exploration", QuickRuns: 1600, ThoroughRuns: 60000,
		Rule: "one run = one generated program (seeded; recursion, negation, aggregation, comparisons, functions, temporal by swarm flags) evaluated K times (quick 6, thorough 12) under drawn map-order policy x store kind x deterministic-order flag x clause/fact permutation x variable/predicate renaming x package wrapping; oracle: all K canonical fact sets equal and all-or-none fail. Non-trivial: accepted by analysis, >=1 derived fact, >=2 distinct map orders presented with >=2 keys. Distinct = distinct trace hashes.",
		Assumptions: []string{"map-order policies are a handful of permutations per range site, not all n!", "generator fragment only (see DESIGN 3.6)"}})
	reg("C06", propMeta{Level: "exploration", QuickRuns: 8000, ThoroughRuns: 400000,
		Rule: "one run = one store topology (simple/indexed/multi-indexed/multi-indexed-array, concurrent(.), teeing(prefilled base), merged(1-2 disjoint prefilled read stores), temporal adapter with/without instant) x drawn map-order policy x a history of 1-30 (thorough 1-60) operations from {Add, Remove, Contains, GetFacts(pattern), Merge(other store), aborted scan, count} over a universe of 2-4 predicates (p/1 and p/2 share a symbol) and constants of every kind incl. nested structures, filtered to be free of Atom.Hash collisions; the set-of-atoms model is compared after every operation (membership of every universe atom, full scans exactly-once, listing, exact count where documented). Non-trivial: >= 2 state-changing operations. Distinct = distinct trace hashes.",
		Assumptions: []string{"universe atoms with equal Atom.Hash() are excluded from random histories (known finding, covered by fixed probes)", "read stores of a merged store are disjoint, as its documentation advises"}})
}
