// check is the driver behind every MANIFEST command:
//
//	check build                         build mgsim for /repo's current tree
//	check <id> quick|thorough           run the property's simulated check
//	check <id> --replay <file>          replay a violation in a fresh process
//	check selftest determinism [ids..]  same seed => same trace hash across processes
//
// Exit 0: property held on everything explored. Exit 1: a violation, with a
// line "VIOLATION property=<id> replay=<path>". Exit 2: build, watchdog or
// determinism trouble (never a verdict about the property).
package main

import (
	"crypto/sha256"
	"encoding/hex"
	"encoding/json"
	"fmt"
	"io"
	"io/fs"
	"os"
	"os/exec"
	"path/filepath"
	"runtime"
	"sort"
	"strconv"
	"strings"
	"sync"
	"syscall"
	"time"

	"verif/internal/instr"
)

const (
	verifDir = "/verif"
	goRoot   = "/opt/veriftools/go1.26.8"
)

// repoDir is /repo. VERIF_DEV_REPO points the driver at another tree (a
// scratch worktree with a seeded change applied) while the machinery is being
// developed; evidence of such a run goes to .cache/dev-evidence, never to
// /verif/evidence, and no registered command sets the variable.
var (
	repoDir     = "/repo"
	evidenceDir = filepath.Join(verifDir, "evidence")
	replaysDir  = filepath.Join(verifDir, "replays")
)

func init() {
	if d := os.Getenv("VERIF_DEV_REPO"); d != "" {
		repoDir = d
		evidenceDir = filepath.Join(verifDir, ".cache", "dev-evidence")
		replaysDir = filepath.Join(verifDir, ".cache", "dev-replays")
		fmt.Fprintf(os.Stderr, "check: DEVELOPMENT RUN against %s (evidence goes to %s)\n", d, evidenceDir)
	}
}

func die(code int, format string, args ...any) {
	fmt.Fprintf(os.Stderr, "check: "+format+"\n", args...)
	os.Exit(code)
}

func goEnv() []string {
	env := os.Environ()
	var out []string
	for _, e := range env {
		if strings.HasPrefix(e, "GOFLAGS=") || strings.HasPrefix(e, "GOPROXY=") || strings.HasPrefix(e, "GOSUMDB=") ||
			strings.HasPrefix(e, "GOTOOLCHAIN=") || strings.HasPrefix(e, "PATH=") || strings.HasPrefix(e, "GOWORK=") {
			continue
		}
		out = append(out, e)
	}
	out = append(out, "GOFLAGS=-mod=mod", "GOPROXY=off", "GOSUMDB=off", "GOTOOLCHAIN=local", "GOWORK=off",
		"PATH="+os.Getenv("PATH"))
	if os.Getenv("HOME") == "" {
		out = append(out, "HOME=/root")
	}
	return out
}

// ---------------------------------------------------------------------------
// build: copy, instrument, compile; cached by content hash

var skipTop = map[string]bool{".git": true, "rust": true, "docs": true, "readthedocs": true}

func listTree(root string, skip map[string]bool) ([]string, error) {
	var files []string
	err := filepath.WalkDir(root, func(p string, d fs.DirEntry, err error) error {
		if err != nil {
			return err
		}
		rel, _ := filepath.Rel(root, p)
		if rel == "." {
			return nil
		}
		top := strings.Split(rel, string(filepath.Separator))[0]
		if skip[top] {
			if d.IsDir() {
				return filepath.SkipDir
			}
			return nil
		}
		if d.Type().IsRegular() {
			files = append(files, rel)
		}
		return nil
	})
	sort.Strings(files)
	return files, err
}

func hashInputs() (string, error) {
	h := sha256.New()
	add := func(root string, files []string) error {
		for _, f := range files {
			b, err := os.ReadFile(filepath.Join(root, f))
			if err != nil {
				return err
			}
			fmt.Fprintf(h, "%s\x00%d\x00", f, len(b))
			h.Write(b)
		}
		return nil
	}
	rf, err := listTree(repoDir, skipTop)
	if err != nil {
		return "", err
	}
	if err := add(repoDir, rf); err != nil {
		return "", err
	}
	for _, sub := range []string{"sim", "internal"} {
		vf, err := listTree(filepath.Join(verifDir, sub), nil)
		if err != nil {
			return "", err
		}
		if err := add(filepath.Join(verifDir, sub), vf); err != nil {
			return "", err
		}
	}
	fmt.Fprintf(h, "go=%s", goRoot)
	// the instrumenter is compiled into this driver: a driver built from other
	// sources must not reuse (or leave behind) a binary under the same key
	if exe, err := os.Executable(); err == nil {
		if b, err := os.ReadFile(exe); err == nil {
			eh := sha256.Sum256(b)
			fmt.Fprintf(h, "driver=%x", eh[:])
		}
	}
	return hex.EncodeToString(h.Sum(nil))[:24], nil
}

func copyFile(src, dst string) error {
	if err := os.MkdirAll(filepath.Dir(dst), 0o755); err != nil {
		return err
	}
	in, err := os.Open(src)
	if err != nil {
		return err
	}
	defer in.Close()
	out, err := os.Create(dst)
	if err != nil {
		return err
	}
	if _, err := io.Copy(out, in); err != nil {
		out.Close()
		return err
	}
	return out.Close()
}

func scratchBase() string {
	if s := os.Getenv("VERIF_SCRATCH"); s != "" {
		return s
	}
	return "/var/tmp"
}

const interpShim = `//go:build verifsim

package interpreter

// SimBuffer returns the interactive buffer (verification shim, scratch copy only).
func (i *Interpreter) SimBuffer() string { return i.buffer }

// SimSetBuffer sets the interactive buffer, as Loop does after a failed Define.
func (i *Interpreter) SimSetBuffer(s string) { i.buffer = s }
`

// ensureBinary returns the path of an mgsim built from the current tree.
func ensureBinary(verbose bool) (string, error) {
	hash, err := hashInputs()
	if err != nil {
		return "", err
	}
	cacheDir := filepath.Join(verifDir, ".cache")
	os.MkdirAll(cacheDir, 0o755)
	bin := filepath.Join(cacheDir, hash, "mgsim")
	// serialise builders
	lock, err := os.OpenFile(filepath.Join(cacheDir, "lock"), os.O_CREATE|os.O_RDWR, 0o644)
	if err != nil {
		return "", err
	}
	defer lock.Close()
	if err := syscall.Flock(int(lock.Fd()), syscall.LOCK_EX); err != nil {
		return "", err
	}
	defer syscall.Flock(int(lock.Fd()), syscall.LOCK_UN)
	if st, err := os.Stat(bin); err == nil && st.Mode().IsRegular() {
		return bin, nil
	}
	t0 := time.Now()
	scratch := filepath.Join(scratchBase(), fmt.Sprintf("mgsim.%d", os.Getpid()))
	os.RemoveAll(scratch)
	defer os.RemoveAll(scratch)
	src := filepath.Join(scratch, "src")
	files, err := listTree(repoDir, skipTop)
	if err != nil {
		return "", err
	}
	for _, f := range files {
		if err := copyFile(filepath.Join(repoDir, f), filepath.Join(src, f)); err != nil {
			return "", err
		}
	}
	simFiles, err := listTree(filepath.Join(verifDir, "sim"), nil)
	if err != nil {
		return "", err
	}
	for _, f := range simFiles {
		if f == "go.mod" {
			continue
		}
		if err := copyFile(filepath.Join(verifDir, "sim", f), filepath.Join(src, "zzsim", f)); err != nil {
			return "", err
		}
	}
	if err := os.WriteFile(filepath.Join(src, "interpreter", "zz_simshim.go"), []byte(interpShim), 0o644); err != nil {
		return "", err
	}
	env := goEnv()
	st, err := instr.Instrument(src, env)
	if err != nil {
		return "", fmt.Errorf("instrument: %w", err)
	}
	if verbose {
		b, _ := json.Marshal(st)
		fmt.Fprintf(os.Stderr, "check: instrumented %s\n", b)
	}
	run := func(args ...string) error {
		cmd := exec.Command(args[0], args[1:]...)
		cmd.Dir = src
		cmd.Env = env
		out, err := cmd.CombinedOutput()
		if err != nil {
			return fmt.Errorf("%s: %v\n%s", strings.Join(args, " "), err, out)
		}
		return nil
	}
	if err := run("go", "mod", "edit", "-require", "github.com/anishathalye/porcupine@v1.3.0"); err != nil {
		return "", err
	}
	os.MkdirAll(filepath.Dir(bin), 0o755)
	tmpBin := bin + ".tmp"
	if err := run("go", "build", "-trimpath", "-tags", "verifsim", "-o", tmpBin, "./zzsim/cmd/mgsim"); err != nil {
		return "", err
	}
	if err := os.Rename(tmpBin, bin); err != nil {
		return "", err
	}
	stj, _ := json.Marshal(st)
	os.WriteFile(filepath.Join(cacheDir, hash, "instrument.json"), stj, 0o644)
	pruneCache(cacheDir, hash)
	if verbose {
		fmt.Fprintf(os.Stderr, "check: built %s in %.1fs\n", bin, time.Since(t0).Seconds())
	}
	return bin, nil
}

func pruneCache(cacheDir, keep string) {
	ents, _ := os.ReadDir(cacheDir)
	type e struct {
		name string
		t    time.Time
	}
	var dirs []e
	for _, d := range ents {
		if d.IsDir() && d.Name() != keep {
			info, err := d.Info()
			if err == nil {
				dirs = append(dirs, e{d.Name(), info.ModTime()})
			}
		}
	}
	sort.Slice(dirs, func(i, j int) bool { return dirs[i].t.After(dirs[j].t) })
	for i, d := range dirs {
		if i >= 6 { // several checks (and development runs) may be in flight
			os.RemoveAll(filepath.Join(cacheDir, d.name))
		}
	}
}

// ---------------------------------------------------------------------------
// batch orchestration

type failure struct {
	Index  int    `json:"index"`
	Seed   uint64 `json:"seed"`
	Class  string `json:"class"`
	Msg    string `json:"msg"`
	Replay string `json:"replay"`
	Key    string `json:"key"`
}

type batchResult struct {
	Prop        string         `json:"prop"`
	Runs        int            `json:"runs"`
	Nontrivial  int            `json:"nontrivial"`
	Distinct    []uint64       `json:"distinct"`
	Discards    map[string]int `json:"discards"`
	Probes      map[string]int `json:"probes"`
	Faults      map[string]int `json:"faults"`
	Samples     []any          `json:"samples"`
	Failures    []failure      `json:"failures"`
	MapEvents   uint64         `json:"map_events"`
	Steps       uint64         `json:"steps"`
	SimTimeNs   int64          `json:"sim_time_ns"`
	TapeLen     int            `json:"tape_len"`
	Switches    int            `json:"switches"`
	Interleaves []uint64       `json:"interleavings"`
	WallS       float64        `json:"wall_s"`
	TimedOut    bool           `json:"timed_out"`
}

type probeResult struct {
	Key   string `json:"key"`
	Desc  string `json:"desc"`
	Class string `json:"class"`
	Msg   string `json:"msg"`
}

type propMeta struct {
	CrashIsViolation bool
	Level        string
	QuickRuns    int
	ThoroughRuns int
	QuickSecs    float64
	ThoroughSecs float64
	Rule         string
	Assumptions  []string
	Real, Stub   []string
}

type knownFinding struct {
	Status string // open | fixed
	Prop   string
	Key    string
	Text   string
}

func readKnownFindings() []knownFinding {
	b, err := os.ReadFile(filepath.Join(verifDir, "known_findings.txt"))
	if err != nil {
		return nil
	}
	var out []knownFinding
	for _, l := range strings.Split(string(b), "\n") {
		l = strings.TrimSpace(l)
		if l == "" || strings.HasPrefix(l, "#") {
			continue
		}
		var kf knownFinding
		switch {
		case strings.HasPrefix(l, "open:"):
			kf.Status = "open"
			l = strings.TrimSpace(strings.TrimPrefix(l, "open:"))
		case strings.HasPrefix(l, "fixed:"):
			kf.Status = "fixed"
			l = strings.TrimSpace(strings.TrimPrefix(l, "fixed:"))
		default:
			continue
		}
		fields := strings.Fields(l)
		rest := []string{}
		for _, f := range fields {
			switch {
			case strings.HasPrefix(f, "property=") && kf.Prop == "":
				kf.Prop = strings.TrimPrefix(f, "property=")
			case strings.HasPrefix(f, "key=") && kf.Key == "":
				kf.Key = strings.TrimPrefix(f, "key=")
			default:
				rest = append(rest, f)
			}
		}
		kf.Text = strings.Join(rest, " ")
		out = append(out, kf)
	}
	return out
}

func readJSON(path string, v any) error {
	b, err := os.ReadFile(path)
	if err != nil {
		return err
	}
	return json.Unmarshal(b, v)
}

func workers() int {
	n := runtime.NumCPU()
	if s := os.Getenv("VERIF_WORKERS"); s != "" {
		if v, err := strconv.Atoi(s); err == nil && v > 0 {
			n = v
		}
	}
	if n > 16 {
		n = 16
	}
	return n
}

func runWorker(bin string, args []string, memKB int, timeout time.Duration, extraEnv ...string) (string, error) {
	// ulimit -v guards against unbounded allocation in the code under test
	sh := fmt.Sprintf("ulimit -v %d; exec \"$0\" \"$@\"", memKB)
	cmd := exec.Command("/bin/sh", append([]string{"-c", sh, bin}, args...)...)
	cmd.Env = append(append(os.Environ(), "GOMAXPROCS=2", "GOTRACEBACK=single"), extraEnv...)
	var outb strings.Builder
	cmd.Stdout = &outb
	cmd.Stderr = &outb
	if err := cmd.Start(); err != nil {
		return "", err
	}
	done := make(chan error, 1)
	go func() { done <- cmd.Wait() }()
	select {
	case err := <-done:
		return outb.String(), err
	case <-time.After(timeout):
		cmd.Process.Kill()
		<-done
		return outb.String(), fmt.Errorf("watchdog: worker exceeded %v", timeout)
	}
}

func main() {
	// go/packages resolves "go" through this process's PATH
	os.Setenv("PATH", goRoot+"/bin:"+os.Getenv("PATH"))
	if len(os.Args) < 2 {
		die(2, "usage: check build | <id> quick|thorough | <id> --replay <file> | selftest determinism")
	}
	switch os.Args[1] {
	case "build":
		bin, err := ensureBinary(true)
		if err != nil {
			die(2, "%v", err)
		}
		fmt.Println(bin)
		return
	case "selftest":
		selftest(os.Args[2:])
		return
	}
	id := os.Args[1]
	if len(os.Args) < 3 {
		die(2, "missing tier")
	}
	if os.Args[2] == "--replay" {
		if len(os.Args) < 4 {
			die(2, "missing replay file")
		}
		os.Exit(replay(id, os.Args[3], true))
	}
	tier := os.Args[2]
	if t := os.Getenv("VERIF_TIER"); t != "" && (t == "quick" || t == "thorough") && tier == "" {
		tier = t
	}
	if tier != "quick" && tier != "thorough" {
		die(2, "tier must be quick or thorough")
	}
	os.Exit(runCheck(id, tier))
}

func replay(id, file string, print bool) int {
	bin, err := ensureBinary(false)
	if err != nil {
		die(2, "%v", err)
	}
	tmp, _ := os.CreateTemp("", "mgsim-replay-*.json")
	tmp.Close()
	defer os.Remove(tmp.Name())
	args := []string{"replay", "-file", file, "-out", tmp.Name()}
	if print {
		args = append(args, "-v")
	}
	out, err := runWorker(bin, args, 8<<20, 10*time.Minute)
	if print {
		fmt.Print(out)
	}
	if err != nil {
		var rf struct {
			ExpectCrash bool `json:"expect_crash"`
		}
		if readJSON(file, &rf) == nil && rf.ExpectCrash && !strings.Contains(err.Error(), "watchdog") {
			if print {
				fmt.Printf("replay: the process died again, as recorded\nVIOLATION property=%s replay=%s\n", id, file)
			}
			return 1
		}
		fmt.Fprintf(os.Stderr, "check: replay process failed: %v\n%s\n", err, out)
		return 2
	}
	var res struct {
		Class      string `json:"class"`
		Msg        string `json:"msg"`
		TraceHash  string `json:"trace_hash"`
		Reproduced bool   `json:"reproduced"`
		ExpClass   string `json:"expected_class"`
		ExpHash    string `json:"expected_trace_hash"`
	}
	if err := readJSON(tmp.Name(), &res); err != nil {
		fmt.Fprintf(os.Stderr, "check: cannot read replay result: %v\n", err)
		return 2
	}
	if print {
		fmt.Printf("replay: class=%q trace_hash=%s (recorded class=%q trace_hash=%s)\n%s\n", res.Class, res.TraceHash, res.ExpClass, res.ExpHash, res.Msg)
	}
	if res.Reproduced {
		if print {
			fmt.Printf("VIOLATION property=%s replay=%s\n", id, file)
		}
		return 1
	}
	if res.Class == "" {
		if print {
			fmt.Println("replay: the recorded violation does not occur on the current tree")
		}
		return 0
	}
	if res.Class == res.ExpClass {
		// same class, different trace (tree changed): still a violation
		if print {
			fmt.Printf("VIOLATION property=%s replay=%s\n", id, file)
		}
		return 1
	}
	return 3
}

func runCheck(id, tier string) int {
	t0 := time.Now()
	seed := uint64(1)
	if s := os.Getenv("VERIF_SEED"); s != "" {
		v, err := strconv.ParseUint(s, 10, 64)
		if err != nil {
			// accept negative / arbitrary integers
			iv, err2 := strconv.ParseInt(s, 10, 64)
			if err2 != nil {
				die(2, "VERIF_SEED is not an integer: %q", s)
			}
			v = uint64(iv)
		}
		seed = v
	}
	fmt.Printf("check: property=%s tier=%s VERIF_SEED=%d\n", id, tier, seed)
	meta, ok := metas[id]
	if !ok {
		die(2, "unknown or unclaimed property %s", id)
	}
	bin, err := ensureBinary(true)
	if err != nil {
		die(2, "%v", err)
	}
	tmpDir, err := os.MkdirTemp("", "mgsim-"+id+"-")
	if err != nil {
		die(2, "%v", err)
	}
	defer os.RemoveAll(tmpDir)
	replayDir := replaysDir
	os.MkdirAll(replayDir, 0o755)

	// 1. fixed probes for known findings
	kfs := readKnownFindings()
	var probes []probeResult
	{
		pf := filepath.Join(tmpDir, "probes.json")
		out, err := runWorker(bin, []string{"probes", "-prop", id, "-out", pf}, 8<<20, 5*time.Minute)
		if err != nil {
			die(2, "probe process failed: %v\n%s", err, out)
		}
		if err := readJSON(pf, &probes); err != nil {
			die(2, "probe result: %v", err)
		}
	}
	violation := ""
	knownSeen := []string{}
	for _, pr := range probes {
		if pr.Class == "" {
			continue
		}
		listed := false
		for _, kf := range kfs {
			if kf.Status == "open" && kf.Prop == id && kf.Key == pr.Key {
				listed = true
				fmt.Printf("KNOWN-FINDING: property=%s key=%s %s [%s]\n", id, pr.Key, kf.Text, pr.Class)
				knownSeen = append(knownSeen, pr.Key)
			}
		}
		if !listed {
			// an unlisted fixed probe fails: write a probe replay file
			path := filepath.Join(replayDir, fmt.Sprintf("%s-probe-%s.json", id, pr.Key))
			b, _ := json.MarshalIndent(map[string]any{"property": id, "probe": pr.Key, "class": pr.Class, "message": pr.Msg}, "", " ")
			os.WriteFile(path, b, 0o644)
			fmt.Printf("probe %s failed: %s: %s\n", pr.Key, pr.Class, pr.Msg)
			if violation == "" {
				violation = path
			}
		}
	}

	// 2. seeded batch
	total := meta.QuickRuns
	secs := meta.QuickSecs
	tierN := 0
	shrink := 300
	if tier == "thorough" {
		total = meta.ThoroughRuns
		secs = meta.ThoroughSecs
		tierN = 1
		shrink = 3000
	}
	if s := os.Getenv("VERIF_RUNS"); s != "" {
		if v, err := strconv.Atoi(s); err == nil {
			total = v
		}
	}
	w := workers()
	if total < w {
		w = total
	}
	per := (total + w - 1) / w
	results := make([]*batchResult, w)
	errs := make([]error, w)
	outs := make([]string, w)
	var wg sync.WaitGroup
	for i := 0; i < w; i++ {
		wg.Add(1)
		go func(i int) {
			defer wg.Done()
			of := filepath.Join(tmpDir, fmt.Sprintf("w%d.json", i))
			start := i * per
			cnt := per
			if start+cnt > total {
				cnt = total - start
			}
			if cnt <= 0 {
				results[i] = &batchResult{}
				return
			}
			args := []string{"run", "-prop", id, "-seed", strconv.FormatUint(seed, 10), "-start", strconv.Itoa(start), "-count", strconv.Itoa(cnt),
				"-tier", strconv.Itoa(tierN), "-out", of, "-deadline", fmt.Sprintf("%.0f", secs), "-replays", replayDir, "-shrink", strconv.Itoa(shrink)}
			lastCase := filepath.Join(tmpDir, fmt.Sprintf("w%d.lastcase", i))
			out, err := runWorker(bin, args, 8<<20, time.Duration(secs*3+600)*time.Second, "MGSIM_LASTCASE="+lastCase)
			outs[i] = out
			if err != nil {
				if meta.CrashIsViolation && !strings.Contains(err.Error(), "watchdog") {
					// the worker died inside a run: attribute it to that run
					if b, rerr := os.ReadFile(lastCase); rerr == nil {
						var idx int
						var rseed uint64
						if n, _ := fmt.Sscanf(string(b), "%d %d", &idx, &rseed); n == 2 {
							path := filepath.Join(replayDir, fmt.Sprintf("%s-crash-%d.json", id, rseed))
							tail := out
							if len(tail) > 1500 {
								tail = tail[:1500]
							}
							rb, _ := json.MarshalIndent(map[string]any{"property": id, "class": id + "/process-crash", "message": "worker process died during this run: " + tail,
								"seed": rseed, "batch_seed": seed, "index": idx, "tier": tierN, "seed_only": true, "expect_crash": true, "harness_version": "mgsim-1"}, "", " ")
							os.WriteFile(path, rb, 0o644)
							results[i] = &batchResult{Failures: []failure{{Index: idx, Seed: rseed, Class: id + "/process-crash", Msg: "worker process died during this run (e.g. out of memory under ulimit -v):\n" + tail, Replay: path}}}
							return
						}
					}
				}
				errs[i] = err
				return
			}
			var br batchResult
			if err := readJSON(of, &br); err != nil {
				errs[i] = err
				return
			}
			results[i] = &br
		}(i)
	}
	wg.Wait()
	for i, e := range errs {
		if e != nil {
			die(2, "worker %d failed: %v\n%s", i, e, outs[i])
		}
	}
	// merge
	merged := &batchResult{Prop: id, Discards: map[string]int{}, Probes: map[string]int{}, Faults: map[string]int{}}
	distinct := map[uint64]bool{}
	il := map[uint64]bool{}
	for _, r := range results {
		merged.Runs += r.Runs
		merged.Nontrivial += r.Nontrivial
		merged.MapEvents += r.MapEvents
		merged.Steps += r.Steps
		merged.SimTimeNs += r.SimTimeNs
		merged.TapeLen += r.TapeLen
		merged.Switches += r.Switches
		merged.TimedOut = merged.TimedOut || r.TimedOut
		for _, d := range r.Distinct {
			distinct[d] = true
		}
		for _, d := range r.Interleaves {
			il[d] = true
		}
		for k, v := range r.Discards {
			merged.Discards[k] += v
		}
		for k, v := range r.Probes {
			merged.Probes[k] += v
		}
		for k, v := range r.Faults {
			merged.Faults[k] += v
		}
		if len(merged.Samples) < 3 {
			merged.Samples = append(merged.Samples, r.Samples...)
		}
		merged.Failures = append(merged.Failures, r.Failures...)
	}
	if len(merged.Samples) > 3 {
		merged.Samples = merged.Samples[:3]
	}
	sort.Slice(merged.Failures, func(i, j int) bool { return merged.Failures[i].Index < merged.Failures[j].Index })

	nviol := 0
	exit := 0
	if violation != "" {
		nviol++
		fmt.Printf("VIOLATION property=%s replay=%s\n", id, violation)
		exit = 1
	}
	for i, f := range merged.Failures {
		if i > 0 {
			// one replay file per batch is verified and reported; others are listed
			fmt.Printf("further failing run: index=%d class=%s replay=%s\n", f.Index, f.Class, f.Replay)
			continue
		}
		fmt.Printf("failing run: index=%d seed=%d class=%s\n%s\n", f.Index, f.Seed, f.Class, f.Msg)
		rc := replay(id, f.Replay, false)
		switch rc {
		case 1:
			nviol++
			fmt.Printf("VIOLATION property=%s replay=%s\n", id, f.Replay)
			exit = 1
		default:
			fmt.Fprintf(os.Stderr, "check: failing run did not reproduce in a fresh process (rc=%d) — simulator determinism bug, not a verdict\n", rc)
			if exit == 0 {
				exit = 2
			}
		}
	}
	wall := time.Since(t0).Seconds()

	// 3. evidence
	samples := merged.Samples
	if len(samples) == 0 {
		samples = []any{"(no non-trivial sample this run)"}
	}
	cov := map[string]any{
		"evaluations":            merged.Runs,
		"distinct_nontrivial":    len(distinct),
		"nontrivial_runs":        merged.Nontrivial,
		"rule":                   meta.Rule,
		"samples":                samples,
		"discards":               merged.Discards,
		"probes":                 merged.Probes,
		"faults_fired":           merged.Faults,
		"map_range_events":       merged.MapEvents,
		"instrumented_steps":     merged.Steps,
		"sim_time_covered_ns":    merged.SimTimeNs,
		"tape_choices":           merged.TapeLen,
		"distinct_interleavings": len(il),
		"runs_per_hour":          int(float64(merged.Runs) / wall * 3600),
		"workers":                w,
		"batch_deadline_hit":     merged.TimedOut,
		"known_findings_seen":    knownSeen,
		"fixed_probes_run":       len(probes),
		"real_components":        meta.Real,
		"stub_components":        meta.Stub,
		"seeds":                  fmt.Sprintf("VERIF_SEED=%d, run i uses mix(VERIF_SEED, property, i), i in [0,%d)", seed, total),
	}
	ev := map[string]any{
		"property_id": id,
		"tier":        tier,
		"seed":        int64(seed),
		"level":       meta.Level,
		"coverage":    cov,
		"assumptions": meta.Assumptions,
		"wall_s":      wall,
		"violations":  nviol,
	}
	os.MkdirAll(evidenceDir, 0o755)
	b, _ := json.MarshalIndent(ev, "", " ")
	if err := os.WriteFile(filepath.Join(evidenceDir, id+".json"), b, 0o644); err != nil {
		die(2, "evidence: %v", err)
	}
	fmt.Printf("check: %s %s: runs=%d nontrivial=%d distinct=%d discards=%v violations=%d wall=%.1fs\n", id, tier, merged.Runs, merged.Nontrivial, len(distinct), merged.Discards, nviol, wall)
	for k, v := range merged.Probes {
		_ = k
		_ = v
	}
	if exit == 0 && len(distinct) < 2 {
		fmt.Fprintf(os.Stderr, "check: fewer than 2 distinct non-trivial runs — harness trouble\n")
		return 2
	}
	return exit
}

// ---------------------------------------------------------------------------
// determinism self-test

func selftest(args []string) {
	if len(args) == 0 || args[0] != "determinism" {
		die(2, "usage: check selftest determinism [ids...]")
	}
	bin, err := ensureBinary(true)
	if err != nil {
		die(2, "%v", err)
	}
	ids := args[1:]
	if len(ids) == 0 {
		for id := range metas {
			ids = append(ids, id)
		}
		sort.Strings(ids)
	}
	bad := 0
	for _, id := range ids {
		// nSeeds seeds (VERIF_SELFTEST_SEEDS, default 120), each in 6 fresh processes
		// at GOMAXPROCS 1/2/3/4/8/16: a divergence that shows in one process out
		// of eight is missed four times in five by a two-run comparison
		type key struct{ i int }
		var mu sync.Mutex
		hashes := map[int][]string{}
		var wg sync.WaitGroup
		sem := make(chan struct{}, 16)
		nSeeds := 120
		if v, err := strconv.Atoi(os.Getenv("VERIF_SELFTEST_SEEDS")); err == nil && v > 0 {
			nSeeds = v
		}
		for i := 0; i < nSeeds; i++ {
			for _, gmp := range []string{"1", "2", "3", "4", "8", "16"} {
				wg.Add(1)
				sem <- struct{}{}
				go func(i int, gmp string) {
					defer wg.Done()
					defer func() { <-sem }()
					cmd := exec.Command(bin, "one", "-prop", id, "-seed", "777", "-i", strconv.Itoa(i))
					cmd.Env = append(os.Environ(), "GOMAXPROCS="+gmp)
					out, _ := cmd.CombinedOutput()
					h := ""
					for _, l := range strings.Split(string(out), "\n") {
						if strings.HasPrefix(l, "hash ") {
							h = l
						}
					}
					mu.Lock()
					hashes[i] = append(hashes[i], h)
					mu.Unlock()
				}(i, gmp)
			}
		}
		wg.Wait()
		diverged := 0
		for i := 0; i < nSeeds; i++ {
			hs := hashes[i]
			for _, h := range hs {
				if h != hs[0] || h == "" {
					diverged++
					fmt.Printf("DIVERGED %s run %d: %v\n", id, i, hs)
					break
				}
			}
		}
		fmt.Printf("determinism %s: %d seeds x 6 processes (GOMAXPROCS 1/2/3/4/8/16): %d diverged\n", id, nSeeds, diverged)
		bad += diverged
	}
	if bad > 0 {
		os.Exit(2)
	}
}
