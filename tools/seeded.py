#!/usr/bin/env python3
"""Verify a property-breaking change delivered by a sub-agent and file it under /verif/seeded/<id>/.

usage: seeded.py add <mutant-dir> <property> <id> <demo-src>:<demo-dst> '<demo test command>' [checks...]

Steps (all in a scratch worktree of /repo under /tmp, removed afterwards):
  a) clean + patch: go build and the full test suite pass
  b) clean + patch + demo: the demo fails
  c) clean + demo: the demo passes
Then the patch is applied to /repo itself, the listed checks (default: the
property's own quick check) are run, and /repo is restored.
"""
import json, os, shutil, subprocess, sys, time

ENV = dict(os.environ, GOFLAGS="-mod=mod", GOPROXY="off")
ENV.pop("GOSUMDB", None); ENV.pop("GOTOOLCHAIN", None)

def sh(cmd, cwd, env=None, timeout=3600):
    p = subprocess.run(cmd, shell=True, cwd=cwd, env=env or ENV, capture_output=True, text=True, timeout=timeout)
    return p.returncode, p.stdout + p.stderr

DEV = os.environ.get("SEEDED_DEV") == "1"

class Applied:
    """The tree a change is evaluated in: /repo itself (patch applied, undone
    afterwards) or, with SEEDED_DEV=1 while something else is using /repo, a
    scratch worktree that the driver is pointed at through VERIF_DEV_REPO."""
    def __init__(self, patch, mid):
        self.patch, self.wt = patch, "/tmp/seedrun-" + mid
        self.env = dict(os.environ)
        self.check = "./bin/check"
    def __enter__(self):
        if DEV:
            sh(f"git worktree remove --force {self.wt}", "/repo")
            rc, out = sh(f"git worktree add -q --detach {self.wt} HEAD", "/repo"); assert rc == 0, out
            rc, out = sh(f"git apply {self.patch}", self.wt)
            self.env["VERIF_DEV_REPO"] = self.wt
            self.check = "./bin/check-dev"
        else:
            rc, out = sh("git status --short", "/repo"); assert out.strip() == "", "/repo not clean: " + out
            rc, out = sh(f"git apply {self.patch}", "/repo")
        self.rc, self.out = rc, out
        return self
    def run(self, cmd):
        return sh(cmd.replace("./bin/check", self.check, 1), "/verif", env=self.env)
    def __exit__(self, *a):
        if DEV:
            sh(f"git worktree remove --force {self.wt}", "/repo")
            sh("find /verif/.cache/dev-replays -name '*.json' -delete", "/verif")
        else:
            sh("git checkout -- .", "/repo")
            sh("find /verif/replays -name '*.json' -delete", "/verif")

def rerun(ids):
    """Re-run the recorded checks against every stored change (applied to /repo, then undone)."""
    base = "/verif/seeded"
    summary = []
    for mid in sorted(os.listdir(base)):
        if ids and mid not in ids:
            continue
        d = os.path.join(base, mid)
        mp = os.path.join(d, "meta.json")
        if not os.path.exists(mp):
            continue
        meta = json.load(open(mp))
        det = {}
        with Applied(os.path.join(d, 'patch.diff'), mid) as ap:
            if ap.rc != 0:
                print(mid, "PATCH DOES NOT APPLY ANY MORE:", ap.out[:300]); summary.append((mid, "n/a")); continue
            for cmd in meta["ran"]:
                c = cmd.split()[1]
                t0 = time.time()
                rc, out = ap.run(cmd)
                viol = [l for l in out.splitlines() if l.startswith("VIOLATION")]
                cls = [l for l in out.splitlines() if l.startswith("failing run:") or l.startswith("probe ")]
                det[c] = {"exit": rc, "detected": rc == 1 and bool(viol), "first": (cls[0] if cls else ""), "wall_s": round(time.time() - t0, 1)}
        meta["detection"] = det
        meta["evaluated_in"] = "scratch worktree (VERIF_DEV_REPO)" if DEV else "/repo with the patch applied, then restored"
        meta["detected_by"] = sorted(c for c, v in det.items() if v["detected"])
        meta["rerun_at_repo_commit"] = subprocess.check_output(["git", "-C", "/repo", "rev-parse", "--short", "HEAD"], text=True).strip()
        json.dump(meta, open(mp, "w"), indent=1)
        print(mid, "->", meta["detected_by"] or "MISSED", {c: v["first"][:70] for c, v in det.items() if v["detected"]},
              {c: "exit %d" % v["exit"] for c, v in det.items() if not v["detected"]}, flush=True)
        summary.append((mid, meta["detected_by"]))
    missed = [m for m, d in summary if not d]
    print("missed:", missed)

def main():
    if sys.argv[1] == "rerun":
        return rerun(sys.argv[2:])
    _, _, mdir, prop, mid, demo, democmd, *checks = sys.argv
    checks = checks or [prop]
    dsrc, ddst = demo.split(":")
    patch = os.path.join(mdir, "patch.diff")
    wt = "/tmp/seedver-" + mid
    sh(f"git worktree remove --force {wt}", "/repo")
    rc, out = sh(f"git worktree add -q --detach {wt} HEAD", "/repo")
    assert rc == 0, out
    res = {"property": prop, "id": mid, "verified_at_repo_commit": subprocess.check_output(["git", "-C", "/repo", "rev-parse", "--short", "HEAD"], text=True).strip()}
    try:
        rc, out = sh(f"git apply {patch}", wt); assert rc == 0, "patch does not apply: " + out
        rc, out = sh("go build ./... && go test -vet=off -count=1 ./...", wt)
        res["a_patch_builds_and_suite_passes"] = rc == 0
        if rc != 0: print(out[-3000:])
        shutil.copy(os.path.join(mdir, dsrc), os.path.join(wt, ddst))
        rc, out = sh(democmd, wt); res["b_demo_fails_with_patch"] = rc != 0
        demo_fail_tail = out[-1200:]
        rc, _ = sh("git checkout -- .", wt)
        rc, out = sh(democmd, wt); res["c_demo_passes_without_patch"] = rc == 0
        if rc != 0: print(out[-3000:])
    finally:
        sh(f"git worktree remove --force {wt}", "/repo")
    print(json.dumps(res))
    ok = res.get("a_patch_builds_and_suite_passes") and res.get("b_demo_fails_with_patch") and res.get("c_demo_passes_without_patch")
    if not ok:
        print("NOT CONFIRMED"); sys.exit(1)
    # run our checks against it
    detections = {}
    with Applied(patch, mid) as ap:
        assert ap.rc == 0, ap.out
        for c in checks:
            t0 = time.time()
            rc, out = ap.run(f"./bin/check {c} quick")
            viol = [l for l in out.splitlines() if l.startswith("VIOLATION")]
            cls = [l for l in out.splitlines() if l.startswith("failing run:") or l.startswith("probe ")]
            detections[c] = {"exit": rc, "detected": rc == 1 and bool(viol), "first": (cls[0] if cls else ""), "wall_s": round(time.time() - t0, 1)}
            print(c, detections[c])
            if not detections[c]["detected"]:
                print(out[-800:])
    dst = os.path.join("/verif/seeded", mid)
    os.makedirs(dst, exist_ok=True)
    shutil.copy(patch, os.path.join(dst, "patch.diff"))
    shutil.copy(os.path.join(mdir, dsrc), os.path.join(dst, os.path.basename(dsrc)))
    for f in ("notes.md", "RUN.md"):
        if os.path.exists(os.path.join(mdir, f)):
            shutil.copy(os.path.join(mdir, f), os.path.join(dst, f))
    meta = {"breaks_property": prop, "id": mid, "confirmation": res,
            "demo": {"file": os.path.basename(dsrc), "copy_to": ddst, "command": democmd, "failure_tail": demo_fail_tail},
            "ran": [f"./bin/check {c} quick" for c in checks], "detection": detections,
            "evaluated_in": "scratch worktree (VERIF_DEV_REPO)" if DEV else "/repo with the patch applied, then restored",
            "needs_to_manifest": open(os.path.join(mdir, "notes.md")).read()[:1500] if os.path.exists(os.path.join(mdir, "notes.md")) else ""}
    json.dump(meta, open(os.path.join(dst, "meta.json"), "w"), indent=1)
    print("filed under", dst)

main()
