#!/bin/bash
# usage: tools/sweep.sh <tier> <seed>... ; builds bin/check in the current dir and runs every check once per seed
tier=$1; shift
export PATH=/opt/veriftools/go1.26.8/bin:$PATH GOFLAGS=-mod=mod GOPROXY=off GOSUMDB=off GOTOOLCHAIN=local
go build -o bin/check ./cmd/check && ./bin/check build >/dev/null 2>&1 || { echo BUILD-FAILED; exit 2; }
for s in "$@"; do for id in ${SWEEP_IDS:-C01 C02 C03 C04 C05 C06 C10 C11 C13 C14 C15 C16 C17 C18 C19 C20}; do
  VERIF_SEED=$s ./bin/check $id $tier > sweep.$tier.$s.$id.log 2>&1; rc=$?
  echo "seed=$s $id $tier exit=$rc $(grep -E '^(VIOLATION|KNOWN-FINDING|failing run)' sweep.$tier.$s.$id.log | head -3 | tr '\n' ' ')"
done; done
