import json,glob,sys
pat=sys.argv[1] if len(sys.argv)>1 else 'replays/*.json'
for f in sorted(glob.glob(pat)):
    d=json.load(open(f))
    print('==',f.split('/')[-1],d.get('class'))
    print(d.get('message','')[:int(sys.argv[2]) if len(sys.argv)>2 else 700])
