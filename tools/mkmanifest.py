#!/usr/bin/env python3
"""Regenerates /verif/MANIFEST.json from the table below (run from /verif)."""
import json

NA = {
 'C07': "pure functions of their argument tuple: functional/ and the decision code of builtin/ contain no map iteration, clock read (outside fn:time:now, which no law mentions), I/O, callback or shared state, so there is no schedule, fault or history to simulate; the one order-related clause (reducers independent of presentation order) is exercised in situ by C02/C05 where presentation order is a simulated schedule",
 'C08': "pure functions of one to three terms; the only nondeterminism on the path (ast.Map/Struct ranging over their argument before a stable sort) mattered only for hash-equal keys and is gone since the repair D67 (found through C19's deterministic-bytes clause); nothing to schedule or inject, input generation alone would be property-based testing, not simulation",
 'C09': "print-then-parse is a pure function of the term; the only stateful thing on the path (pooled lexer/parser) is simulated under C10/C18, the round-trip law itself has no schedule, clock or fault in it",
 'C12': "SetConforms/UpperBound/LowerBound/HasType on closed type expressions are pure; the map ranges in symbols/ iterate type-variable contexts which are empty for closed expressions",
}

TRUST = "trusts the instrumenter's rewrites to be semantics preserving (the repository's own test suite passes on the instrumented copy), the Go runtime, the ANTLR runtime and the codecs, which run un-instrumented"

CHECKS = {
 'C05': dict(cat='exploration', ref='DESIGN.md 4 (C05)',
   text="seeded search over map-iteration schedules, store kinds and presentations of generated programs; a clean batch is evidence for the explored seeds, not proof",
   tech="deterministic simulation: metamorphic equality across simulated map-order schedules, store kinds and presentations"),
 'C06': dict(cat='exploration', ref='DESIGN.md 4 (C06)',
   text="seeded operation histories on every store topology under owned map order, compared after every step with a set-of-atoms reference model; sampling, not proof",
   tech="deterministic simulation: seeded operation histories vs. reference set model checked after every operation"),
 'C13': dict(cat='exploration', ref='DESIGN.md 4 (C13)',
   text="seeded insertion/coalesce/query/merge histories with the interval limit as an injected abort, compared pointwise with a reference interval-set model after every step",
   tech="deterministic simulation: seeded histories vs. reference interval-set model, limit as injected fault"),
 'C18': dict(cat='exploration', ref='DESIGN.md 4 (C18)',
   text="every interleaving decision of 2-4 client tasks is drawn by a seeded cooperative scheduler at lock, pool, store-statement and function-entry yield points; histories are checked for linearizability with porcupine, lock discipline (per base store the intersection of adequately held locks over all accesses, also for a second concurrent store used as merge source while others operate on it) and deadlock are checked during the run; parallel evaluations are compared with solo runs",
   tech="deterministic simulation: seeded cooperative scheduler + porcupine linearizability + lockset + solo-vs-parallel equality"),
 'C01': dict(cat='exploration', ref='DESIGN.md 4 (C01)',
   text="generated safe, stratified programs are evaluated by the real engine under owned map order, a drawn store kind and flags, and compared in both directions with the model of an independent reference evaluator; deciding power comes mostly from the seeded workload and the reference model, the simulation adds exact replay and active search over iteration orders and store kinds",
   tech="deterministic simulation: seeded programs under simulated map-order schedules vs. independent reference evaluator"),
 'C02': dict(cat='exploration', ref='DESIGN.md 4 (C02)',
   text="as C01 with the generator biased to do-transform rules; the reference folds every aggregating rule over the distinct solutions of its own body; a template with group keys of different kinds that print alike; fixed probes for bodies with temporal literals and wildcards",
   tech="deterministic simulation: seeded aggregating programs under simulated map-order schedules vs. reference group-and-fold"),
 'C03': dict(cat='exploration', ref='DESIGN.md 4 (C03)',
   text="seeded dependency graphs (all 4^9 three-predicate labellings in the thorough tier) are stratified under owned map order; the result is judged by the validity conditions of the statement and an own negative-cycle test",
   tech="deterministic simulation: seeded/enumerated dependency graphs under simulated map-order schedules vs. own stratification conditions"),
 'C04': dict(cat='exploration', ref='DESIGN.md 4 (C04)',
   text="generated programs are perturbed into unsafe or oddly ordered clauses; an independent binding closure says which must be rejected, accepted programs must evaluate without panic/error to the reference semantics of the clauses as written; a do-transform template draws the order of reducer and row-wise statements and their references",
   tech="deterministic simulation: seeded clause perturbations vs. reference safety judgement and reference semantics"),
 'C10': dict(cat='fault_enumeration', ref='DESIGN.md 4 (C10)',
   text="stored artefacts that were valid when written are truncated, corrupted, tampered with or delivered by a failing/chunking reader at enumerated offsets and pushed through parser, analysis, evaluation under a fact limit and the simplecolumn readers; no panic, no hang (step budget), no unbounded allocation (worker under ulimit -v)",
   tech="deterministic simulation: stream faults on stored artefacts at enumerated offsets; no-panic / bounded-steps / bounded-memory oracle"),
 'C11': dict(cat='exploration', ref='DESIGN.md 4 (C11)',
   text="generated declared programs over a closed type universe are bounds-checked in error mode under owned map order; accepted ones are evaluated and every stored fact is checked with the library's own run-time type check",
   tech="deterministic simulation: seeded declared programs under simulated map-order schedules vs. the library's run-time type check"),
 'C14': dict(cat='exploration', ref='DESIGN.md 4 (C14)',
   text="seeded coalesced temporal fact sets and operator/annotation rules on a discrete timeline, evaluation time explicit or read from the simulated clock (with jumps), compared with pointwise reference semantics",
   tech="deterministic simulation: simulated clock + seeded temporal programs vs. pointwise reference semantics"),
 'C15': dict(cat='exploration', ref='DESIGN.md 4 (C15)',
   text="every fact of an evaluated generated program is explained (post-hoc or from a recording) under several owned map orders; an independent proof checker validates every node (built-in premises are decided under the reported bindings), completeness, acyclicity and content-addressed IDs; recorder on/off must not change the result",
   tech="deterministic simulation: proof search under simulated map-order schedules vs. independent proof checker"),
 'C16': dict(cat='exploration', ref='DESIGN.md 4 (C16)',
   text="seeded command histories with failing commands and pops against the interpreter on a per-run temp directory; after every command the state must answer like a fresh interpreter replaying only the live fragments (refinement against replay of the committed log)",
   tech="deterministic simulation: seeded command histories with failing commands vs. fresh-replay reference"),
 'C17': dict(cat='fault_enumeration', ref='DESIGN.md 4 (C17)',
   text="the created-fact limit is treated as an injected resource fault and enumerated (every limit 1..L) for generated finite and diverging programs on a counting store wrapper: bounded creation, no silent partial result, diverging programs must report an error",
   tech="deterministic simulation: fact limit as injected fault enumerated over all cut points, counting-store seam, reference model"),
 'C20': dict(cat='exploration', ref='DESIGN.md 4 (C20)',
   text="generated transform-free programs are evaluated by both engines from equal stores under the same or different owned map orders; stores must be equal",
   tech="deterministic simulation: differential execution of both evaluators under simulated map-order schedules"),
 'C19': dict(cat='fault_enumeration', ref='DESIGN.md 4 (C19)',
   text="generated stores are written and read back through stub streams with a drawn delivery schedule; write errors, read errors and opener failures are injected at drawn offsets (every offset for small media in the thorough tier); err == nil must imply an exact reload",
   tech="deterministic simulation: stub streams with injected write/read/open faults at enumerated offsets, reload-equality oracle"),
}

def main():
    props = [json.loads(l) for l in open('properties.jsonl')]
    ids = [p['id'] for p in props]
    m = {
     "version": 1,
     "setup_cmd": "cd /verif && PATH=/opt/veriftools/go1.26.8/bin:$PATH GOFLAGS=-mod=mod GOPROXY=off GOSUMDB=off GOTOOLCHAIN=local go build -o bin/check ./cmd/check && ./bin/check build",
     "hooks": {
      "guard": "verifsim",
      "enable": "no hooks live in /repo: every check copies /repo's working tree to a scratch dir, instruments it with go/ast (map ranges -> simrt.MapSeq, sync -> simsync, time.Now -> simrt.Now, yields, global marks), adds /verif/sim/** under zzsim/ (all files carry //go:build verifsim) and builds mgsim with -tags verifsim; see DESIGN.md 3.2",
      "baseline_off_cmd": "cd /repo && GOFLAGS=-mod=mod GOPROXY=off go test -vet=off -count=1 ./...",
      "source_commits": [],
      "add_only": True,
     },
     "engines": [{"name": "mgsim", "path": "/verif/sim", "serves_properties": sorted(CHECKS), "kind_free_text": "deterministic simulator: seeded choice tape, owned map-iteration order, simulated clock, cooperative scheduler, stub streams, reference models; built per check from an instrumented scratch copy of /repo"}],
     "checks": [],
     "not_applicable": [],
     "notes": "properties listed under not_applicable with reason 'check not built yet' are planned (DESIGN.md 2) and move to checks as their harness lands; known findings and repaired defects are in /verif/known_findings.txt",
    }
    for i in ids:
        if i in CHECKS:
            c = CHECKS[i]
            m["checks"].append({
              "property_id": i,
              "quick_cmd": f"./bin/check {i} quick",
              "thorough_cmd": f"./bin/check {i} thorough",
              "evidence_file": f"/verif/evidence/{i}.json",
              "replay_cmd_template": f"./bin/check {i} --replay {{path}}",
              "engine": "mgsim",
              "level_claimed": {"category": c['cat'], "text": c['text'], "design_ref": c['ref']},
              "level_note": TRUST,
              "technique": c['tech'],
            })
        else:
            m["not_applicable"].append({"property_id": i, "reason": NA.get(i, "check not built yet (planned, see DESIGN.md 2)")})
    json.dump(m, open('MANIFEST.json', 'w'), indent=1)
    print("checks:", [c['property_id'] for c in m['checks']])

main()
