#!/usr/bin/env python3
"""Rewrites the seeded-changes table in DESIGN.md from /verif/seeded/*/meta.json."""
import json, os, re
base = "/verif/seeded"
rows = []
for mid in sorted(os.listdir(base)):
    mp = os.path.join(base, mid, "meta.json")
    if not os.path.exists(mp):
        continue
    m = json.load(open(mp))
    det = m.get("detection", {})
    by = m.get("detected_by")
    if by is None:
        by = sorted(c for c, v in det.items() if v.get("detected"))
    ran = [c.split()[1] for c in m.get("ran", [])]
    cls = "; ".join(sorted({re.sub(r".*class=", "", v.get("first", "")) for c, v in det.items() if v.get("detected") and v.get("first")}))
    what = m.get("summary") or ""
    if not what:
        notes = m.get("needs_to_manifest", "")
        # first non-heading line
        for line in notes.splitlines():
            line = line.strip()
            if line and not line.startswith("#"):
                what = line
                break
    if m.get("history"):
        what += " — " + m["history"]
    what = what.replace("|", "/")[:400]
    rows.append(f"| {mid} | {m['breaks_property']} | {what} | {', '.join(ran)} | {', '.join(by) if by else '**missed**'} | {cls} |")
table = "| id | property | change (from its notes) | checks run (quick) | caught by | violation class |\n|---|---|---|---|---|---|\n" + "\n".join(rows)
p = "/verif/DESIGN.md"
s = open(p).read()
B, E = "<!-- seeded-table-begin -->", "<!-- seeded-table-end -->"
block = B + "\n" + table + "\n" + E
if "SEEDED_TABLE" in s:
    s = s.replace("SEEDED_TABLE", block)
else:
    s = s[:s.index(B)] + block + s[s.index(E) + len(E):]
open(p, "w").write(s)
print(len(rows), "rows")
