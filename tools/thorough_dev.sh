#!/bin/bash
# background exploration only (vp run --with-repo): thorough tier against the snapshot of /repo, evidence goes to .cache/dev-evidence
export PATH=/opt/veriftools/go1.26.8/bin:$PATH GOFLAGS=-mod=mod GOPROXY=off GOSUMDB=off GOTOOLCHAIN=local
go build -o bin/check ./cmd/check || exit 2
for id in "$@"; do
  VERIF_DEV_REPO=$VP_RUN_REPO VERIF_SEED=${SEED:-1} ./bin/check $id thorough > thorough.$id.log 2>&1; rc=$?
  echo "$id thorough seed=${SEED:-1} exit=$rc $(grep -E '^(VIOLATION|failing run|check: C)' thorough.$id.log | head -3 | tr '\n' ' ' | cut -c1-400)"
done
